---------------------------- MODULE Tr_Totality ----------------------------
(***************************************************************************)
(* C17: every recorded call of every entry point returned normally (no     *)
(* panic, no hang: "abnormal" = "F") with an outcome of the shape the      *)
(* specification allows for that operation (a value or its error type).    *)
(* Agreement of the outcome with the specification is the subject of the   *)
(* other properties' trace specifications, which also treat a panic as a   *)
(* mismatch; here the inputs are hostile and only totality is judged.      *)
(***************************************************************************)
EXTENDS Naturals, Sequences, TLC, Json, IOUtils

Rec == ndJsonDeserialize(IOEnv.TRACE)
Has2(o, keys) == keys \subseteq DOMAIN o
Either(o, a, b) == (a \in DOMAIN o) \/ (b \in DOMAIN o)

ShapeOK(r) ==
    LET o == r.out IN
    CASE r.op = "patmatch"  -> Has2(o, {"ok", "m"}) /\ Len(o.m) = Len(r.in.ns)
      [] r.op = "best"      -> Has2(o, {"ok"})
      [] r.op = "vercmp"    -> Has2(o, {"ab", "ba"})
      [] r.op = "pkgname"   -> Has2(o, {"name", "base", "ver", "rev", "sb", "sv"})
      [] r.op = "pkgpath"   -> Has2(o, {"ok"})
      [] r.op = "depend"    -> Has2(o, {"ok"})
      [] r.op = "sumparse"  -> Either(o, "ok", "err")
      [] r.op = "sumhist"   -> Has2(o, {"snaps", "texts", "done", "stable", "reparse", "pb", "pv", "desc"}) /\ Len(o.snaps) = Len(r.in.steps) /\ o.stable = "T"
      [] r.op = "stream"    -> Has2(o, {"writes", "entries", "display"})
                               /\ \A i \in 1..Len(o.writes) :
                                     /\ o.writes[i].ret[1] \in {"ok", "err"}
                                     /\ o.writes[i].ret[1] = "err" => o.writes[i].ret[2] = "InvalidData"
      [] r.op = "plist"     -> Either(o, "ok", "err")
      [] r.op = "plistline" -> TRUE
      [] r.op = "distparse" -> Has2(o, {"d", "out"})
      [] r.op = "algname"   -> Has2(o, {"ok"})
      [] r.op = "scanindex" -> Either(o, "ok", "err")
      [] r.op = "metahist"  -> Has2(o, {"steps"}) /\ Len(o.steps) = Len(r.in.calls)
      [] r.op = "pkgdb"     -> Has2(o, {"open", "listed", "errors", "reads_ok"}) /\ o.reads_ok = "T" /\ o.open \in {"ok", "err"}
      [] OTHER -> FALSE

Verdict(r) == IF r.abnormal = "F" /\ ShapeOK(r) THEN "ok" ELSE "bad"

VARIABLES k, blk
NB == 48
Init == blk \in 0..(NB - 1) /\ k = 0 /\ Len(Rec) >= 0    \* forces the one-time load of the trace
Next == k = 0 /\ k' \in {i \in 1..Len(Rec) : i % NB = blk} /\ UNCHANGED blk
Check == k = 0 \/ LET v == Verdict(Rec[k]) IN v = "ok" \/ PrintT(<<"MISMATCH", k, v>>)
=============================================================================
