------------------------------ MODULE MC_Plist ------------------------------
(***************************************************************************)
(* C14 and C15 on the specification, and the cases for spec -> impl.       *)
(* Mode "scan":  every byte string of length <= MaxItems over              *)
(*   {a, space, tab, newline, @}: implemented scanner = the property's     *)
(*   lines; a final newline does not change the number of entries.         *)
(* Mode "cmds":  every command (and some non-commands) x argument class    *)
(*   {absent, blanks only, ASCII, UTF-8, non-UTF-8, leading blanks,        *)
(*    trailing blank, "preserve"}: one line each.                          *)
(* Mode "views": every sequence of <= MaxItems entries over 14 entry kinds:*)
(*   the four implemented view loops = the property's definitions.         *)
(***************************************************************************)
EXTENDS Plist, TLC, Json

CONSTANTS MaxItems, Mode, FixedCond, EmitMax
ASSUME PlistLiteralsOK

Sym == {97, SP, TAB, NL, AT}
EntryKinds == { <<"File", <<102>>>>, <<"File", <<103, 47, 104>>>>, <<"Ignore">>,
                <<"Cwd", <<47, 112>>>>, <<"Cwd", <<47, 113, 47>>>>, <<"Cwd", <<47, 233>>>>, <<"Cwd", <<47, 233, 47>>>>,
                <<"Exec", <<120>>>>, <<"UnExec", <<121>>>>, <<"Mode", <<<<48, 55, 53, 53>>>>>>, <<"Mode", <<>>>>,
                <<"PkgDir", <<100>>>>, <<"DirRm", <<114>>>>, <<"Name", <<110, 45, 49>>>>, <<"PkgOpt", LitPreserve>>,
                <<"Comment", <<<<99>>>>>>, <<"PkgDep", <<100, 62, 49>>>>, <<"Display", <<77>>>>, <<"Owner", <<<<111>>>>>> }
ArgClasses == { <<>>, <<SP>>, <<SP, SP, TAB>>, <<SP, 97, 98>>, <<SP, 195, 169>>, <<SP, 233>>, <<SP, SP, TAB, 97>>,
                <<SP, 97, SP>>, <<SP>> \o LitPreserve, <<SP>> \o LitPreserve \o <<SP>>, <<TAB, 97>>, <<SP, 97, SP, 98>>,
                <<SP, VT, 97>>, <<SP, FF, CR, 97>>, <<SP, VT>>, <<SP, CR>>, <<SP, 97, VT>> }
CmdWords == { CmdTable[i].name : i \in 1..Len(CmdTable) } \cup { <<AT>>, <<AT, 120>>, <<64, 67, 87, 68>>, <<102>>, <<AT, 233>>,
                <<SP, 64, 99, 119, 100>>, <<64, 99, 119, 100, 120>> }

VARIABLES b, es, n
Init == b = <<>> /\ es = <<>> /\ n = 0
NextScan  == n < MaxItems /\ n' = n + 1 /\ (\E c \in Sym : b' = Append(b, c)) /\ UNCHANGED es
NextCmds  == n = 0 /\ n' = 1 /\ (\E w \in CmdWords, a \in ArgClasses : b' = w \o a) /\ UNCHANGED es
NextViews == n < MaxItems /\ n' = n + 1 /\ (\E e \in EntryKinds : es' = Append(es, e)) /\ UNCHANGED b
Next == CASE Mode = "scan" -> NextScan [] Mode = "cmds" -> NextCmds [] Mode = "views" -> NextViews

Text == IF Mode = "views" THEN JoinTerm([i \in 1..Len(es) |-> LineOfEntry(es[i])], <<NL>>) ELSE b

\* C14
ScanSt0 == [lines |-> <<>>, start |-> 0, end |-> 0, tstart |-> 0, trim |-> TRUE]
ScanIsRef == Mode = "scan" => /\ Scanner(b, FixedCond) = LinesRef(b)
                              /\ \A f \in BOOLEAN : ScanLoop(b, 0, ScanSt0, f) = ScanLoopRef(b, 0, ScanSt0, f)   \* fold = recursion
NewlineIrrelevant == (Mode = "scan" /\ b # <<>> /\ b[Len(b)] # NL) =>
                        Len(Scanner(b, FixedCond)) = Len(Scanner(Append(b, NL), FixedCond))
OnePerLine == Mode = "scan" => Len(LinesRef(b)) = Cardinality({i \in 1..Len(Segments(b)) : ~IsBlankLine(Segments(b)[i])})
\* rendering and parsing are inverse on entry sequences
RenderParse == Mode = "views" => ParsePlist(Text) = <<"ok", es>>
\* C15: the four implemented loops are the property's definitions
ViewsAreRef == Mode = "views" =>
    /\ View(es, "files") = FilesRef(es)
    /\ View(es, "prefixed") = PrefixedRef(es)
    /\ View(es, "install") = CmdsRef(es, InstallKinds)
    /\ View(es, "uninstall") = CmdsRef(es, UninstallKinds)
    /\ \A v \in {"files", "prefixed", "install", "uninstall"} : View(es, v) = ViewLoopRef(es, 1, <<FALSE, <<>>, <<>>>>, v)   \* fold = recursion
\* the four views list the same files in the same order
SameFiles == Mode = "views" =>
    LET fi(v) == SelectSeq(v, IsFile) IN
    /\ [i \in 1..Len(fi(View(es, "install"))) |-> fi(View(es, "install"))[i][2]] = FilesRef(es)
    /\ [i \in 1..Len(fi(View(es, "uninstall"))) |-> fi(View(es, "uninstall"))[i][2]] = FilesRef(es)
    /\ Len(PrefixedRef(es)) = Len(FilesRef(es))

Expected == LET r == ParsePlist(Text) IN
            IF r[1] = "err" THEN [err |-> "T"] ELSE [ok |-> r[2], q |-> Queries(r[2])]
Emit == (n <= EmitMax /\ PlistJudged(Text)) =>
          /\ PrintT(<<"CASE", ToJson([op |-> "plist", in |-> [bytes |-> Text], out |-> Expected])>>)
          /\ (Mode = "cmds" /\ n = 1 /\ ~Has(Text, NL)) =>
                PrintT(<<"CASE", ToJson([op |-> "plistline", in |-> [bytes |-> Text], out |-> EntryParse(Text)])>>)
=============================================================================
