-------------------------- MODULE Tr_SummaryStream --------------------------
(***************************************************************************)
(* Trace validation of SummaryStream::write (C09).  A record is one        *)
(* history: {chunks} -> {writes: [{ret, n}], entries, display}.  Every     *)
(* logged write must be a step the property allows (SummaryStream!Allowed  *)
(* with real pkg_summary validity, Summary!Parse); at the end the printed  *)
(* entries must be the stream's entries and, for canonical text, printing  *)
(* the collection reproduces the stream.  A write that no allowed step     *)
(* explains takes the Reject step: <<"MISMATCH", k, "base">>.              *)
(***************************************************************************)
EXTENDS SummaryStream, Summary, TLC, Json, IOUtils

Rec == ndJsonDeserialize(IOEnv.TRACE)

RealValid(rec) == Nth(Parse(Decode(rec)), 1) = "ok"

VARIABLES k, l, cum, n, failed, info     \* cum: number of bytes written so far
vars == <<k, l, cum, n, failed, info>>

Chunks == Rec[k].in.chunks
Writes == Rec[k].out.writes
Whole(i) == Flatten(Rec[i].in.chunks)

Init == /\ k \in 1..Len(Rec)
        /\ l = 0 /\ cum = 0 /\ n = 0 /\ failed = FALSE
        /\ info = [all |-> <<>>, rest |-> <<>>, bad |-> 0, invalid |-> FALSE, ends |-> <<>>]
\* first step of every history: analyse the whole stream once (done by the workers in
\* parallel, whereas initial states are computed by a single thread)
Load == /\ l = 0 /\ info' = Info(Whole(k)) /\ l' = 1 /\ UNCHANGED <<k, cum, n, failed>>

ShapeOK == {"writes", "entries", "display"} \subseteq DOMAIN Rec[k].out

TraceWrite ==
    /\ ShapeOK /\ ~failed /\ l >= 1 /\ l <= Len(Writes) /\ l <= Len(Chunks)
    /\ AllowedI(info, cum, n, Len(Chunks[l]), Writes[l].ret, Writes[l].n)
    /\ cum' = cum + Len(Chunks[l]) /\ n' = Writes[l].n
    /\ failed' = (Writes[l].ret[1] = "err")
    /\ l' = l + 1 /\ UNCHANGED <<k, info>>

\* the printed form of a well-formed record, as bytes
Printed(rec) == Encode(Render(Nth(Parse(Decode(rec)), 2)))
EndOK ==
    /\ ShapeOK
    /\ (failed \/ l = Len(Chunks) + 1)                         \* every chunk was written unless one failed
    /\ l = Len(Writes) + 1
    /\ FinalOK(Whole(k), n, failed)
    /\ Len(Rec[k].out.entries) = n
    /\ \A i \in 1..n : Rec[k].out.entries[i] = Printed(info.all[i])
    /\ Rec[k].out.display = Flatten([i \in 1..n |-> Rec[k].out.entries[i] \o <<NL>>])
    \* canonical well-formed stream: printing the collection reproduces the stream
    /\ (~failed /\ info.bad = 0 /\ info.rest = <<>> /\ \A i \in 1..Len(info.all) : Printed(info.all[i]) = info.all[i] \o <<NL>>)
          => Rec[k].out.display = Whole(k)

Done == 9999
Step == Load \/ TraceWrite
Terminal == l >= 1 /\ l # Done /\ EndOK
\* rejected: no allowed step explains the next logged write, or the end conditions fail
Reject == /\ l # Done /\ ~ENABLED Step /\ ~Terminal
          /\ PrintT(<<"MISMATCH", k, "base">>)
          /\ l' = Done /\ UNCHANGED <<k, cum, n, failed, info>>
Next == Step \/ Reject
=============================================================================
