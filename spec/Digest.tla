------------------------------- MODULE Digest -------------------------------
(***************************************************************************)
(* Digest wrappers (src/digest.rs) - C13, and the hashing half of C12.     *)
(*                                                                         *)
(* The hash functions themselves are uninterpreted: what the specification *)
(* fixes is WHICH BYTES are absorbed, for every read schedule, which       *)
(* algorithm is dispatched, and how errors propagate.  The conformance     *)
(* step interprets H with an independent implementation.                   *)
(***************************************************************************)
EXTENDS Text

AlgNames == << <<66, 76, 65, 75, 69, 50, 115>>,      \* "BLAKE2s"
               <<77, 68, 53>>,                        \* "MD5"
               <<82, 77, 68, 49, 54, 48>>,            \* "RMD160"
               <<83, 72, 65, 49>>,                    \* "SHA1"
               <<83, 72, 65, 50, 53, 54>>,            \* "SHA256"
               <<83, 72, 65, 53, 49, 50>> >>          \* "SHA512"
AlgTxt == <<"BLAKE2s", "MD5", "RMD160", "SHA1", "SHA256", "SHA512">>
Algs == 1..6
DigestLiteralsOK == \A a \in Algs : AlgNames[a] = Codes(AlgTxt[a])
HexLen == <<64, 32, 40, 40, 64, 128>>

\* Digest::from_str: ASCII case-insensitive; 0 = unsupported.  Display: the canonical spelling.
AlgFromStr(s) == LET S == {a \in Algs : LowerSeq(AlgNames[a]) = LowerSeq(s)} IN IF S = {} THEN 0 ELSE CHOOSE a \in S : TRUE

\* the RCS marker: "$NetBSD" in the real code (RealMarker); the bounded model-checking
\* instance substitutes a two-symbol marker so that a read boundary can fall inside it
CONSTANT Marker
RealMarker == <<36, 78, 101, 116, 66, 83, 68>>    \* "$NetBSD"

\* the bytes hash_patch absorbs: newline-terminated lines (a final unterminated line counts
\* as terminated) without those containing the marker, each re-terminated
PatchFilter(b) ==
    LET ps == SplitOn(b, NL)
        ls == IF ps[Len(ps)] = <<>> THEN SubSeq(ps, 1, Len(ps) - 1) ELSE ps
        keep == SelectSeq(ls, LAMBDA l : ~HasSub(l, Marker))
    IN JoinTerm(keep, <<NL>>)

Absorbed(mode, b) == IF mode = "patch" THEN PatchFilter(b) ELSE b
=============================================================================
