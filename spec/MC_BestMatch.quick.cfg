CONSTANTS MaxPool = 3
  EmitHist = FALSE
SPECIFICATION Spec
VIEW View
INVARIANTS Final Unique PoolInv Commutes
CHECK_DEADLOCK FALSE
