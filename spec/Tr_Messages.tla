---------------------------- MODULE Tr_Messages ----------------------------
(***************************************************************************)
(* Extension check (not one of the twenty properties): the error variant   *)
(* every entry point returns for an input it rejects, and the Display text *)
(* of that error, against Messages.tla.                                    *)
(*  errmsg {what, s} -> {ok} | {variant, text, pos?, msg?}                  *)
(***************************************************************************)
EXTENDS Messages, PkgPath, Summary, Plist, Digest, TLC, Json, IOUtils

Rec == ndJsonDeserialize(IOEnv.TRACE)

PatternVerdict(r) ==
    LET p == r.in.s  o == r.out IN
    IF ~Judged(p) THEN TRUE
    ELSE IF CompileOk(p) THEN o = [ok |-> "T"]
    ELSE LET kd == PatternErrorKind(p) IN
         /\ "variant" \in DOMAIN o /\ o.variant = kd
         /\ kd = "Alternate" => o.text = LitUnbalanced
         /\ kd = "Dewey" => (o.text = DeweyErrorText(p) /\ o.pos = DeweyError(p)[1] /\ o.msg = DeweyError(p)[2])
DeweyVerdict(r) ==
    LET p == r.in.s  o == r.out IN
    IF DeweyNew(p).ok THEN o = [ok |-> "T"]
    ELSE "variant" \in DOMAIN o /\ o.text = DeweyErrorText(p) /\ o.pos = DeweyError(p)[1] /\ o.msg = DeweyError(p)[2]
PathVerdict(r) == IF PkgPathNew(r.in.s).ok = "T" THEN r.out = [ok |-> "T"]
                  ELSE r.out = [variant |-> "InvalidPath", text |-> LitInvalidPath]
DependVerdict(r) ==
    LET s == r.in.s  o == r.out  parts == SplitOn(s, COLON) IN
    IF ~DependJudged(s) THEN TRUE
    ELSE IF DependNew(s).ok = "T" THEN o = [ok |-> "T"]
    ELSE IF Len(parts) # 2 THEN o = [variant |-> "Invalid", text |-> LitInvalidDepend]
    ELSE IF ~CompileOk(parts[1]) THEN
         /\ "variant" \in DOMAIN o /\ o.variant = "Pattern"
         /\ PatternErrorKind(parts[1]) = "Alternate" => o.text = LitUnbalanced
         /\ PatternErrorKind(parts[1]) = "Dewey" => o.text = DeweyErrorText(parts[1])
    ELSE o = [variant |-> "PkgPath", text |-> LitInvalidPath]
SummaryVerdict(r) ==
    LET t == r.in.s  o == r.out  res == Parse(t) IN
    IF Causes(t) = {} THEN o = [ok |-> "T"]
    ELSE /\ "variant" \in DOMAIN o
         /\ \E c \in Causes(t) : /\ o.variant = c[1]
                                 /\ c[1] # "ParseInt" => o.text = SummaryErrorText(c[1], c[2])
\* which PlistError a rejected line gives
PlistErrorKind(line) ==
    LET c == CmdOf(line)  a == ArgOf(line)  i == CmdIndex(c) IN
    IF i = 0 THEN "UnsupportedCommand"
    ELSE LET rule == CmdTable[i].rule IN
         CASE rule \in {"req-raw", "none"} -> "IncorrectArguments"
           [] rule = "req-utf8" -> IF a = <<>> THEN "IncorrectArguments" ELSE "Utf8"
           [] rule = "opt-utf8" -> "Utf8"
           [] rule = "preserve" -> IF a = <<>> \/ ~ValidUtf8(a[1]) THEN "IncorrectArguments" ELSE "UnsupportedCommand"
           [] OTHER -> "none"
PlistVerdict(r) ==
    LET line == r.in.s  o == r.out  e == EntryParse(line) IN
    IF ~ArgJudged(line) \/ Has(line, NL) THEN TRUE
    ELSE IF e # <<"Err">> THEN o = [ok |-> "T"]
    ELSE /\ "variant" \in DOMAIN o /\ o.variant = PlistErrorKind(line)
         /\ (o.variant = "IncorrectArguments" /\ ValidUtf8(line)) => o.text = LitBadArgs \o line
         /\ (o.variant = "UnsupportedCommand" /\ ValidUtf8(CmdOf(line))) => o.text = LitUnsupportedCmd \o CmdOf(line)
         /\ o.variant = "Utf8" => StartsWith(o.text, LitBadUtf8)
DigestVerdict(r) == IF AlgFromStr(r.in.s) # 0 THEN r.out = [ok |-> "T"]
                    ELSE r.out = [variant |-> "Unsupported", text |-> LitUnsupportedDigest \o r.in.s]

Verdict(r) ==
    IF r.op # "errmsg" THEN "bad"
    ELSE IF (CASE r.in.what = "pattern" -> PatternVerdict(r) [] r.in.what = "dewey" -> DeweyVerdict(r)
               [] r.in.what = "pkgpath" -> PathVerdict(r) [] r.in.what = "depend" -> DependVerdict(r)
               [] r.in.what = "summary" -> SummaryVerdict(r) [] r.in.what = "plistline" -> PlistVerdict(r)
               [] r.in.what = "digest" -> DigestVerdict(r) [] OTHER -> FALSE)
         THEN "ok" ELSE "bad"

VARIABLES k, blk
NB == 48
Init == blk \in 0..(NB - 1) /\ k = 0 /\ Len(Rec) >= 0    \* forces the one-time load of the trace
Next == k = 0 /\ k' \in {i \in 1..Len(Rec) : i % NB = blk} /\ UNCHANGED blk
Check == k = 0 \/ LET v == Verdict(Rec[k]) IN v = "ok" \/ PrintT(<<"MISMATCH", k, v>>)
=============================================================================
