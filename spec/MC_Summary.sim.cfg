CONSTANTS Depth = 40
  FullTable = TRUE
  EmitHist = TRUE
SPECIFICATION Spec
INVARIANTS Emit
CHECK_DEADLOCK FALSE
