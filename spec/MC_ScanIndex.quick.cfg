CONSTANT MaxLines = 3
SPECIFICATION Spec
INVARIANTS LoopIsRef ErrorFails OnePerName NoLeak Emit
CHECK_DEADLOCK FALSE
