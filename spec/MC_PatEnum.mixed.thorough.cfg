CONSTANTS MaxPieces = 6
  Mode = "mixed"
INIT Init
NEXT Next
INVARIANTS AlgIsCsh AlgIsRef CompileRule PlainIdentical DeweyIsGrammar DeweyAgrees TwoBound BestSelf Emit
CHECK_DEADLOCK FALSE
