----------------------------- MODULE MC_PatEnum -----------------------------
(***************************************************************************)
(* C02, C04, C05 on the specification, and the cases for spec -> impl.     *)
(* Every pattern that is a concatenation of at most MaxPieces pieces is    *)
(* built incrementally (so all workers share the enumeration); Mode picks  *)
(* the piece alphabet and the name list:                                   *)
(*   "chars"  { } , a b                 brace structure (C04)              *)
(*   "mixed"  { } , a b -1 >1 *         braces with dewey/glob tails (C04) *)
(*   "dewey"  a b - > < = 1 2 e-acute   comparison patterns (C02)          *)
(*   "glob"   a b - 1 * ? [ab] [!a] [0-9]  shell globs and plain (C05)     *)
(* Invariants at every pattern p (Judged(p): outcome fixed by a property): *)
(*   AlgIsCsh     implemented expansion = csh expansion                    *)
(*   AlgIsRef     implemented matcher (fast reject at every level of the   *)
(*                recursion) = "some csh expansion compiles and matches"   *)
(*   QuickInert   the fast reject never rejects a match                    *)
(*   DeweyIsGrammar  operator scan of Dewey::new = the pattern grammar     *)
(*   DeweyAgrees  standalone Dewey matcher = Pattern matcher (brace-free)  *)
(*   TwoBound     a two-bound pattern = conjunction of its halves          *)
(*   PlainIdentical  a plain pattern matches only the identical string     *)
(* and one CASE line per judged pattern: compile verdict, match verdicts   *)
(* against the name list, against all of its expansions and all near-miss  *)
(* strings (pairing any '{' with the first '}' to its right).              *)
(***************************************************************************)
EXTENDS Pattern, TLC, Json, SequencesExt

CONSTANTS MaxPieces, Mode

EA == 233   \* e-acute
PiecesOf(m) ==
    CASE m = "chars" -> { <<LBRACE>>, <<RBRACE>>, <<COMMA>>, <<97>>, <<98>> }
      [] m = "mixed" -> { <<LBRACE>>, <<RBRACE>>, <<COMMA>>, <<97>>, <<98>>, <<DASH, 49>>, <<GT, 49>>, <<STAR>> }
      [] m = "dewey" -> { <<97>>, <<98>>, <<DASH>>, <<GT>>, <<LT>>, <<EQ>>, <<49>>, <<50>>, <<EA>> }
      [] m = "glob"  -> { <<97>>, <<98>>, <<DASH>>, <<49>>, <<STAR>>, <<QM>>, <<LBRK, 97, 98, RBRK>>,
                          <<LBRK, BANG, 97, RBRK>>, <<LBRK, 48, DASH, 57, RBRK>> }
Pieces == PiecesOf(Mode)

\* all strings of length <= n over the codes in S
RECURSIVE StrUpTo(_, _)
StrUpTo(S, n) == IF n = 0 THEN {<<>>} ELSE StrUpTo(S, n - 1) \cup {Append(s, c) : s \in StrUpTo(S, n - 1), c \in S}

NamesChars == StrUpTo({97, 98}, 3) \cup { <<COMMA>>, <<97, COMMA>>, <<97, COMMA, 98>>, <<97, 97, 97, 97>>,
                <<97, 98, 97, 98>>, <<98, 98, 97, 97>> }
NamesMixed == NamesChars \cup
              { <<97, DASH, 49>>, <<98, DASH, 49>>, <<97, DASH, 50>>, <<97, 98, DASH, 49>>, <<97, 98, DASH, 50>>,
                <<97, DASH, 49, DASH, 49>>, <<97, DASH, 49, DASH, 50>>, <<DASH, 49>>, <<DASH, 50>>, <<97, DASH>>,
                <<97, 97, DASH, 50>>, <<98, 97, DASH, 50>>, <<97, DASH, 48>>, <<97, 49>>, <<98, DASH, 49, 97>> }
NamesDewey == StrUpTo({97, 98, DASH, 49, 50}, 2) \cup
              { <<97, DASH, 49>>, <<97, DASH, 50>>, <<98, DASH, 49>>, <<97, 98, 49>>, <<97, DASH, DASH>>, <<DASH, 97, DASH>>,
                <<DASH, DASH, 49>>, <<97, 49, DASH>>, <<49, DASH, 49>>, <<97, DASH, 97>>, <<97, DASH, 98>>, <<97, 97, DASH>>,
                <<DASH, 49, DASH>>, <<98, DASH, 50>>, <<50, DASH, 49>>, <<97, DASH, 98, DASH, 49>>, <<97, DASH, DASH, 49>>, <<97, 98, DASH, 49>>, <<97, 98, DASH, 50>>,
                <<97, DASH, 49, 50>>, <<97, DASH, 49, DASH, 50>>, <<98, DASH, 97, DASH, 49>>, <<97, 97, DASH, 49>>,
                <<97, DASH, 97, DASH, 49>>, <<EA, DASH, 49>>, <<97, EA, DASH, 49>>, <<97, DASH, 50, 49>>,
                <<97, DASH, 49, 46, 49>>, <<98, 97, DASH, 50>>, <<DASH, 97, DASH, 49>>, <<97, DASH, 48>> }
NamesGlob  == StrUpTo({97, 98, DASH, 49, 48}, 3) \cup
              { <<97, 98, DASH, 49>>, <<97, DASH, 49, 48>>, <<98, 98, 98, 98>>, <<97, 97, DASH, 48>>,
                <<97, 49, 49, 49>>, <<DASH, DASH, DASH, DASH>>, <<97, 98, 97, 98>>, <<49, 48, 49, 48>>, <<98, DASH, 49, 97>>,
                <<97, 98, DASH, 49, 48>>, <<97, 47, 98>>, <<97, 46, 98>>, <<EA>>, <<97, EA>> }
NameSeq == SetToSeq(CASE Mode = "chars" -> NamesChars [] Mode = "mixed" -> NamesMixed
                      [] Mode = "dewey" -> NamesDewey [] Mode = "glob" -> NamesGlob)
NN == Len(NameSeq)

VARIABLES p, n
Init == p = <<>> /\ n = 0
Next == n < MaxPieces /\ n' = n + 1 /\ \E x \in Pieces : p' = p \o x

HasBrace == HasAnyOf(p, {LBRACE, RBRACE})
J == Judged(p)

AlgIsCsh == (HasBrace /\ Balanced(p)) => BraceAlg(p) = Csh(p)
\* AlgIsRef and QuickInert, one evaluation of the reference per name
AlgIsRef == J => \A i \in 1..NN :
                LET m == MatchL(p, NameSeq[i], 0) IN
                /\ MatchAlgL(p, NameSeq[i], 0) = m
                /\ ~Quick(p, NameSeq[i]) => ~m
CompileRule == /\ CompileOk(p) = (IF HasBrace THEN Balanced(p) ELSE CompileOkFlat(p))
               /\ DepthOK(p, 1, 0) = DepthOKRef(p, 1, 0)                     \* fold = recursion
PlainIdentical == Kind(p) = "plain" => \A i \in 1..NN : MatchL(p, NameSeq[i], 0) = (p = NameSeq[i])

(***************************************************************************)
(* The comparison-pattern grammar, stated without scanning: a parse is a   *)
(* way to write p as  base op1 v1  or  base op1 v1 op2 v2  where base and  *)
(* the bounds contain no '<' or '>', ">=" and "<=" are read greedily, op1  *)
(* is > or >= and op2 is < or <= when there are two.                       *)
(***************************************************************************)
NoOps(s) == ~HasAnyOf(s, {LT, GT})
OpText(o) == CASE o = "GT" -> <<GT>> [] o = "GE" -> <<GT, EQ>> [] o = "LT" -> <<LT>> [] o = "LE" -> <<LT, EQ>>
Greedy(o, v) == o \in {"GE", "LE"} \/ v = <<>> \/ v[1] # EQ
Cuts(s) == 0..Len(s)
Cand1(q) == { c \in Cuts(q) \X Ops : StartsWithAt(q, c[1] + 1, OpText(c[2])) }
P1(q, c) == <<SubSeq(q, 1, c[1]), c[2], SubSeq(q, c[1] + Len(OpText(c[2])) + 1, Len(q))>>
Parses1(q) == { x \in { P1(q, c) : c \in Cand1(q) } : NoOps(x[1]) /\ NoOps(x[3]) /\ Greedy(x[2], x[3]) }
Cand2(q) == { c \in Cuts(q) \X {"GT", "GE"} \X Cuts(q) \X {"LT", "LE"} :
                /\ StartsWithAt(q, c[1] + 1, OpText(c[2])) /\ StartsWithAt(q, c[3] + 1, OpText(c[4]))
                /\ c[1] + Len(OpText(c[2])) <= c[3] }
P2(q, c) == <<SubSeq(q, 1, c[1]), c[2], SubSeq(q, c[1] + Len(OpText(c[2])) + 1, c[3]),
              c[4], SubSeq(q, c[3] + Len(OpText(c[4])) + 1, Len(q))>>
Parses2(q) == { x \in { P2(q, c) : c \in Cand2(q) } :
                  NoOps(x[1]) /\ NoOps(x[3]) /\ NoOps(x[5]) /\ Greedy(x[2], x[3]) /\ Greedy(x[4], x[5]) }
AllParses(q) == Parses1(q) \cup Parses2(q)

AsParse(d) == IF Len(d.bounds) = 1 THEN <<d.base, d.bounds[1].op, d.bounds[1].v>>
              ELSE <<d.base, d.bounds[1].op, d.bounds[1].v, d.bounds[2].op, d.bounds[2].v>>
DeweyIsGrammar ==
    (~HasBrace /\ Len(p) <= 5) =>
        LET d == DeweyNew(p) IN
        IF d.ok THEN AllParses(p) = {AsParse(d)} ELSE AllParses(p) = {}

\* declarative match: the name is  base '-' version  with a dash-free version satisfying all bounds
MatchByGrammar(x, nm) ==
    \E k \in 1..Len(nm) :
        /\ nm[k] = DASH /\ ~Has(SubSeq(nm, k + 1, Len(nm)), DASH)
        /\ SubSeq(nm, 1, k - 1) = x[1]
        /\ OpHolds(x[2], Cmp(SubSeq(nm, k + 1, Len(nm)), x[3]))
        /\ Len(x) = 5 => OpHolds(x[4], Cmp(SubSeq(nm, k + 1, Len(nm)), x[5]))
DeweyAgrees ==
    (~HasBrace /\ Kind(p) = "dewey" /\ Len(p) <= 5) =>
        LET d == DeweyNew(p) IN
        \A i \in 1..NN :
            /\ (d.ok /\ DeweyMatches(d, NameSeq[i])) = (\E x \in AllParses(p) : MatchByGrammar(x, NameSeq[i]))
            /\ MatchAlgL(p, NameSeq[i], 0) = (d.ok /\ DeweyMatches(d, NameSeq[i]))
TwoBound ==
    (~HasBrace /\ Kind(p) = "dewey") =>
        LET d == DeweyNew(p) IN
        (d.ok /\ Len(d.bounds) = 2) =>
            LET h1 == d.base \o OpText(d.bounds[1].op) \o d.bounds[1].v
                h2 == d.base \o OpText(d.bounds[2].op) \o d.bounds[2].v
            IN \A i \in 1..NN : MatchL(p, NameSeq[i], 0) = (MatchL(h1, NameSeq[i], 0) /\ MatchL(h2, NameSeq[i], 0))

BestSelf == CompileOk(p) => \A i \in 1..NN : BestMatchL(p, NameSeq[i], NameSeq[i], 0) = BestSelfL(p, NameSeq[i], 0)

TF(b) == IF b THEN "T" ELSE "F"
Case ==
    LET ok  == CompileOk(p)
        xs  == IF HasBrace /\ Balanced(p) THEN SetToSeq(Csh(p) \cup BraceShipped(p)) ELSE <<>>
        d   == DeweyNew(p)
        row(names, lb) == [i \in 1..Len(names) |-> TF(ok /\ MatchL(p, names[i], lb))]
        drow(lb) == [i \in 1..NN |-> TF(d.ok /\ DeweyMatchesL(d, NameSeq[i], lb))]
        \* bm / xbm: the same verdicts asked through best_match(n, n) (BestSelfL)
        out(lb) == IF HasBrace THEN [ok |-> TF(ok), m |-> row(NameSeq, lb), xm |-> row(xs, lb), bm |-> row(NameSeq, lb), xbm |-> row(xs, lb)]
                   ELSE [ok |-> TF(ok), m |-> row(NameSeq, lb), xm |-> row(xs, lb), bm |-> row(NameSeq, lb), xbm |-> row(xs, lb),
                         dok |-> TF(d.ok), dm |-> drow(lb)]
    IN IF out(0) = out(96)
       THEN [op |-> "patrow", each |-> 1, in |-> [p |-> p, xs |-> xs], out |-> out(0)]
       ELSE [op |-> "patrow", each |-> 1, in |-> [p |-> p, xs |-> xs], out |-> out(0), alt |-> [KF1 |-> out(96)]]

Relevant == IF Mode \in {"chars", "mixed"} THEN HasBrace ELSE TRUE
Emit == IF n = 0
        THEN PrintT(<<"CASE", ToJson([op |-> "namelist", in |-> [ns |-> NameSeq]])>>)
             /\ PrintT(<<"CASE", ToJson(Case)>>)
        ELSE (Relevant /\ J) => PrintT(<<"CASE", ToJson(Case)>>)
=============================================================================
