------------------------------- MODULE Dewey -------------------------------
(***************************************************************************)
(* pkg_install-compatible "dewey" version comparison (src/dewey.rs).        *)
(*                                                                         *)
(* A version is read left to right into a sequence of components and a     *)
(* package revision.  A component is a pair <<m, d>>: m in -3..0 is the    *)
(* modifier weight (0 for numbers), d the normalised digit sequence of a   *)
(* number (<<>> = zero); pairs are ordered lexicographically, numbers by   *)
(* length then digit-wise, so digit runs of any length are exact and no    *)
(* machine arithmetic is involved.                                         *)
(*                                                                         *)
(* lb is the named deviation KF1: 0 = the property (a letter is worth its  *)
(* alphabet rank 1..26), 96 = the shipped encoding (ASCII code of the      *)
(* lower-cased letter, 97..122).                                           *)
(***************************************************************************)
EXTENDS Text

Zero   == <<0, <<>>>>
Num(d) == <<0, StripZeros(d)>>
Mod(k) == <<k, <<>>>>

CompCmp(x, y) == IF x[1] < y[1] THEN -1
                 ELSE IF x[1] > y[1] THEN 1
                 ELSE NumCmp(x[2], y[2])

\* Literals are written as code tuples because TLC re-evaluates Codes("...") on every
\* use inside actions (measured: 10x slowdown); ASSUME LiteralsOK checks them once.
KwAlpha == <<97, 108, 112, 104, 97>>   \* "alpha"
KwBeta  == <<98, 101, 116, 97>>       \* "beta"
KwRc    == <<114, 99>>                 \* "rc"
KwPre   == <<112, 114, 101>>            \* "pre"
KwPl    == <<112, 108>>                \* "pl"
KwNb    == <<110, 98>>                 \* "nb"
DeweyLiteralsOK == /\ KwAlpha = Codes("alpha") /\ KwBeta = Codes("beta") /\ KwRc = Codes("rc")
                   /\ KwPre = Codes("pre") /\ KwPl = Codes("pl") /\ KwNb = Codes("nb")

\* keyword kw occurs at position i of s, ASCII case-insensitively
KwAt(s, i, kw) == i + Len(kw) - 1 <= Len(s) /\ LowerSeq(SubSeq(s, i, i + Len(kw) - 1)) = kw

\* last index of the digit run starting at i (i - 1 if s[i] is not a digit)
RECURSIVE RunEnd(_, _)
RunEnd(s, i) == IF i <= Len(s) /\ s[i] \in Digit THEN RunEnd(s, i + 1) ELSE i - 1

\* the version order is specified for digit runs of at most 18 digits (C01); longer runs
\* saturate in the code and are judged only by the order laws (C03) and totality (C17)
LongRun(s) == \E i \in 1..(Len(s) - 18) : \A j \in i..(i + 18) : s[j] \in Digit

(***************************************************************************)
(* The tokeniser: the property's rule table, one branch per rule.          *)
(* TokStep gives the rule that fires at position i and its effect; the     *)
(* operational machine (MC_DeweyTok) takes one action per rule and the     *)
(* functional Tok below folds the same step.                               *)
(***************************************************************************)
TokRule(s, i) ==
    LET c == s[i] IN
    IF c \in Digit THEN "Digits"
    ELSE IF c \in {DOT, USCORE} THEN "Sep"
    ELSE IF KwAt(s, i, KwNb) THEN "Nb"
    ELSE IF KwAt(s, i, KwAlpha) THEN "Alpha"
    ELSE IF KwAt(s, i, KwBeta) THEN "Beta"
    ELSE IF KwAt(s, i, KwRc) THEN "Rc"
    ELSE IF KwAt(s, i, KwPre) THEN "Pre"
    ELSE IF KwAt(s, i, KwPl) THEN "Pl"
    ELSE IF c \in Alpha THEN "Letter"
    ELSE "Skip"

\* <<next index, components appended, <<>> (revision kept) or <<new revision>> >>
TokStep(s, i, lb) ==
    LET r == TokRule(s, i) IN
    CASE r = "Digits" -> LET j == RunEnd(s, i) IN <<j + 1, <<Num(SubSeq(s, i, j))>>, <<>>>>
      [] r = "Sep"    -> <<i + 1, <<Zero>>, <<>>>>
      [] r = "Nb"     -> LET j == RunEnd(s, i + 2) IN <<j + 1, <<>>, <<StripZeros(SubSeq(s, i + 2, j))>>>>
      [] r = "Alpha"  -> <<i + 5, <<Mod(-3)>>, <<>>>>
      [] r = "Beta"   -> <<i + 4, <<Mod(-2)>>, <<>>>>
      [] r = "Rc"     -> <<i + 2, <<Mod(-1)>>, <<>>>>
      [] r = "Pre"    -> <<i + 3, <<Mod(-1)>>, <<>>>>
      [] r = "Pl"     -> <<i + 2, <<Zero>>, <<>>>>
      [] r = "Letter" -> <<i + 1, <<Zero, Num(NatDigits(lb + ToLower(s[i]) - 96))>>, <<>>>>
      [] r = "Skip"   -> <<i + 1, <<>>, <<>>>>

\* the fold of TokStep over the positions of s (positions inside a token already consumed
\* are skipped); TokFromRef is the same as a recursion
TokFromV(s, i0, ver0, rev0, lb) ==
    LET step(st, i) == IF i < st[1] THEN st
                       ELSE LET t == TokStep(s, i, lb)
                            IN <<t[1], st[2] \o t[2], IF t[3] = <<>> THEN st[3] ELSE t[3][1]>>
        r == FoldL(step, <<i0, ver0, rev0>>, SubSeq(Idx(s), i0, Len(s)))
    IN [ver |-> r[2], rev |-> r[3]]
TokFrom(s, i0, ver0, rev0, lb) == Let1(s, LAMBDA x : TokFromV(x, i0, ver0, rev0, lb))
RECURSIVE TokFromRef(_, _, _, _, _)
TokFromRef(s, i, ver, rev, lb) ==
    IF i > Len(s) THEN [ver |-> ver, rev |-> rev]
    ELSE LET st == TokStep(s, i, lb)
         IN TokFromRef(s, st[1], ver \o st[2], IF st[3] = <<>> THEN rev ELSE st[3][1], lb)

TokL(s, lb) == TokFrom(s, 1, <<>>, <<>>, lb)
Tok(s)      == TokL(s, 0)

(***************************************************************************)
(* Declarative comparison: pad the shorter component sequence with zeros,  *)
(* compare position by position, the revision decides only on a tie.       *)
(***************************************************************************)
At(v, i) == IF i <= Len(v) THEN v[i] ELSE Zero

VecCmpFromV(a, b, i0) ==
    LET i == FirstWhere(i0, MaxOf(Len(a), Len(b)), LAMBDA j : CompCmp(At(a, j), At(b, j)) # 0)
    IN IF i = 0 THEN 0 ELSE CompCmp(At(a, i), At(b, i))
VecCmpFrom(a, b, i0) == Let2(a, b, LAMBDA x, y : VecCmpFromV(x, y, i0))
RECURSIVE VecCmpFromRef(_, _, _)
VecCmpFromRef(a, b, i) ==
    IF i > MaxOf(Len(a), Len(b)) THEN 0
    ELSE LET c == CompCmp(At(a, i), At(b, i))
         IN IF c # 0 THEN c ELSE VecCmpFromRef(a, b, i + 1)

CmpTok(ta, tb) == LET c == VecCmpFrom(ta.ver, tb.ver, 1)
                  IN IF c # 0 THEN c ELSE NumCmp(ta.rev, tb.rev)

CmpL(a, b, lb) == CmpTok(TokL(a, lb), TokL(b, lb))     \* sign of a versus b
Cmp(a, b)      == CmpL(a, b, 0)

Ops == {"GT", "GE", "LT", "LE"}
OpHolds(op, sign) == CASE op = "GT" -> sign > 0
                       [] op = "GE" -> sign >= 0
                       [] op = "LT" -> sign < 0
                       [] op = "LE" -> sign <= 0

(***************************************************************************)
(* Operational comparison, mirroring dewey_cmp(lhs, op, rhs): common       *)
(* prefix, then one of two asymmetric padding loops, then the revision.    *)
(* TestComp is dewey_test on components.                                   *)
(***************************************************************************)
TestComp(x, op, y) == OpHolds(op, CompCmp(x, y))
B2S(b) == IF b THEN "T" ELSE "F"        \* loop results: "T", "F" or "fall"

\* each loop runs to the first position that decides ("T" / "F"), or falls through
CommonLoop(l, op, r, i0) ==
    LET i == FirstWhere(i0, MinOf(Len(l.ver), Len(r.ver)), LAMBDA j : l.ver[j] # r.ver[j])
    IN IF i = 0 THEN "fall" ELSE B2S(TestComp(l.ver[i], op, r.ver[i]))
PadLeftLoop(l, op, r, i0) ==          \* lhs shorter: 0 against rhs[i]
    LET i == FirstWhere(i0, Len(r.ver), LAMBDA j : r.ver[j] # Zero)
    IN IF i = 0 THEN "fall" ELSE B2S(TestComp(Zero, op, r.ver[i]))
PadRightLoop(l, op, r, i0) ==         \* lhs longer: lhs[i] against 0
    LET i == FirstWhere(i0, Len(l.ver), LAMBDA j : l.ver[j] # Zero)
    IN IF i = 0 THEN "fall" ELSE B2S(TestComp(l.ver[i], op, Zero))

RevTest(l, op, r) == OpHolds(op, NumCmp(l.rev, r.rev))

DeweyCmpAlgV(l, op, r) ==
    LET c == CommonLoop(l, op, r, 1) IN
    IF c # "fall" THEN c = "T"
    ELSE IF Len(l.ver) < Len(r.ver) THEN
         LET p == PadLeftLoop(l, op, r, Len(l.ver) + 1)
         IN IF p # "fall" THEN p = "T" ELSE RevTest(l, op, r)
    ELSE IF Len(l.ver) > Len(r.ver) THEN
         LET p == PadRightLoop(l, op, r, Len(r.ver) + 1)
         IN IF p # "fall" THEN p = "T" ELSE RevTest(l, op, r)
    ELSE RevTest(l, op, r)

DeweyCmpAlg(l, op, r) == Let2(l, r, LAMBDA x, y : DeweyCmpAlgV(x, op, y))
(***************************************************************************)
(* Dewey::new - the operator scan - and Dewey::matches.                    *)
(***************************************************************************)
OpPosSeq(p) == SelectSeq([i \in 1..Len(p) |-> i], LAMBDA i : p[i] \in {LT, GT})

OpAt(p, i) ==
    LET eq == i < Len(p) /\ p[i + 1] = EQ
    IN [pos    |-> i,
        vstart |-> IF eq THEN i + 2 ELSE i + 1,
        op     |-> IF p[i] = GT THEN (IF eq THEN "GE" ELSE "GT")
                               ELSE (IF eq THEN "LE" ELSE "LT")]

DeweyNew(p) ==
    LET ps  == OpPosSeq(p)
        ops == [k \in 1..Len(ps) |-> OpAt(p, ps[k])]
    IN IF Len(ops) = 0 \/ Len(ops) >= 3 THEN [ok |-> FALSE]
       ELSE IF Len(ops) = 1 THEN
            [ok |-> TRUE, base |-> SubSeq(p, 1, ops[1].pos - 1),
             bounds |-> << [op |-> ops[1].op, v |-> SubSeq(p, ops[1].vstart, Len(p))] >>]
       ELSE IF ops[1].op \in {"GT", "GE"} /\ ops[2].op \in {"LT", "LE"} THEN
            [ok |-> TRUE, base |-> SubSeq(p, 1, ops[1].pos - 1),
             bounds |-> << [op |-> ops[1].op, v |-> SubSeq(p, ops[1].vstart, ops[2].pos - 1)],
                           [op |-> ops[2].op, v |-> SubSeq(p, ops[2].vstart, Len(p))] >>]
       ELSE [ok |-> FALSE]

\* PKGNAME split used by the matcher: at the last '-'
HasDash(n)    == Has(n, DASH)
NameBase(n)   == SubSeq(n, 1, LastPos(n, DASH) - 1)
NameVer(n)    == SubSeq(n, LastPos(n, DASH) + 1, Len(n))

BoundHolds(b, ver, lb) == OpHolds(b.op, CmpL(ver, b.v, lb))

DeweyMatchesL(d, n, lb) ==
    /\ HasDash(n)
    /\ NameBase(n) = d.base
    /\ \A k \in 1..Len(d.bounds) : BoundHolds(d.bounds[k], NameVer(n), lb)
DeweyMatches(d, n) == DeweyMatchesL(d, n, 0)
=============================================================================
