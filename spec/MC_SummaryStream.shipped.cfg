CONSTANTS MaxEntries = 2
  Fixed = FALSE
  EmitHist = FALSE
  ValidEntry <- McValid
SPECIFICATION Spec
VIEW View
INVARIANTS StepAllowed PrefixOK FinalInv Drained
CHECK_DEADLOCK FALSE
