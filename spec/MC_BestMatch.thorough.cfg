CONSTANTS MaxPool = 4
  EmitHist = FALSE
SPECIFICATION Spec
VIEW View
INVARIANTS Final Unique PoolInv Commutes
CHECK_DEADLOCK FALSE
