CONSTANTS MaxLen = 4
INIT Init
NEXT Next
INVARIANTS TextEquiv DeweyEquiv
CHECK_DEADLOCK FALSE
