----------------------------- MODULE ScanIndex -----------------------------
(***************************************************************************)
(* pbulk-index output (src/scanindex.rs) - C16.  Text is scalar values.    *)
(* The reader loop is a machine over lines: state [buf, recs, st] where    *)
(* buf is the block being collected (trimmed, non-empty lines), recs the   *)
(* records completed so far, st in {"reading", "failed", "done"}.          *)
(***************************************************************************)
EXTENDS PkgPath

\* Unicode White_Space (what str::trim and split_whitespace use)
UniWs == {9, 10, 11, 12, 13, 32, 133, 160, 5760, 8232, 8233, 8239, 8287, 12288} \cup (8192..8202)
TrimU(s) == Trim(s, UniWs)

LitPkgnameEq == <<80, 75, 71, 78, 65, 77, 69, 61>>      \* "PKGNAME="
KeyNames == << <<80, 75, 71, 78, 65, 77, 69>>,                                             \* PKGNAME
               <<80, 75, 71, 95, 76, 79, 67, 65, 84, 73, 79, 78>>,                         \* PKG_LOCATION
               <<65, 76, 76, 95, 68, 69, 80, 69, 78, 68, 83>>,                             \* ALL_DEPENDS
               <<80, 75, 71, 95, 83, 75, 73, 80, 95, 82, 69, 65, 83, 79, 78>>,             \* PKG_SKIP_REASON
               <<80, 75, 71, 95, 70, 65, 73, 76, 95, 82, 69, 65, 83, 79, 78>>,             \* PKG_FAIL_REASON
               <<78, 79, 95, 66, 73, 78, 95, 79, 78, 95, 70, 84, 80>>,                     \* NO_BIN_ON_FTP
               <<82, 69, 83, 84, 82, 73, 67, 84, 69, 68>>,                                 \* RESTRICTED
               <<67, 65, 84, 69, 71, 79, 82, 73, 69, 83>>,                                 \* CATEGORIES
               <<77, 65, 73, 78, 84, 65, 73, 78, 69, 82>>,                                 \* MAINTAINER
               <<85, 83, 69, 95, 68, 69, 83, 84, 68, 73, 82>>,                             \* USE_DESTDIR
               <<66, 79, 79, 84, 83, 84, 82, 65, 80, 95, 80, 75, 71>>,                     \* BOOTSTRAP_PKG
               <<85, 83, 69, 82, 71, 82, 79, 85, 80, 95, 80, 72, 65, 83, 69>>,             \* USERGROUP_PHASE
               <<83, 67, 65, 78, 95, 68, 69, 80, 69, 78, 68, 83>>,                         \* SCAN_DEPENDS
               <<80, 66, 85, 76, 75, 95, 87, 69, 73, 71, 72, 84>>,                         \* PBULK_WEIGHT
               <<77, 85, 76, 84, 73, 95, 86, 69, 82, 83, 73, 79, 78>> >>                   \* MULTI_VERSION
KeyTxt == <<"PKGNAME", "PKG_LOCATION", "ALL_DEPENDS", "PKG_SKIP_REASON", "PKG_FAIL_REASON", "NO_BIN_ON_FTP", "RESTRICTED",
            "CATEGORIES", "MAINTAINER", "USE_DESTDIR", "BOOTSTRAP_PKG", "USERGROUP_PHASE", "SCAN_DEPENDS", "PBULK_WEIGHT",
            "MULTI_VERSION">>
ScanLiteralsOK == (\A i \in 1..15 : KeyNames[i] = Codes(KeyTxt[i])) /\ LitPkgnameEq = Codes("PKGNAME=")
ScalarKeys == <<4, 5, 6, 7, 8, 9, 10, 11, 12, 14>>     \* the ten Option<String> fields, in struct order

\* KEY=VALUE lines of one block: last line for a key wins, lines without '=' are dropped
ValueOf(block, key) ==
    LET hits == SelectSeq(block, LAMBDA l : LET i == FirstPos(l, EQ) IN i # 0 /\ TrimU(SubSeq(l, 1, i - 1)) = key)
    IN IF hits = <<>> THEN <<>>
       ELSE LET l == hits[Len(hits)] IN <<TrimU(SubSeq(l, FirstPos(l, EQ) + 1, Len(l)))>>

\* one block -> <<"ok", record>> | <<"err">>
\* (name, loc, deps, dr are computed once: ToIndexV gets them as values)
ToIndexV(block, name, loc, deps, dr) ==
    LET lr   == IF loc = <<>> THEN [ok |-> "T"] ELSE PkgPathNew(loc[1])
        list(k) == LET v == ValueOf(block, KeyNames[k]) IN IF v = <<>> THEN <<>> ELSE Fields(v[1], UniWs)
    IN IF name = <<>> \/ lr.ok = "F" \/ (\E i \in 1..Len(dr) : dr[i].ok = "F") THEN <<"err">>
       ELSE <<"ok", [pkgname |-> name[1], base |-> PkgBase(name[1]), version |-> PkgVer(name[1]),
                     location |-> IF loc = <<>> THEN <<>> ELSE <<[short |-> lr.short, full |-> lr.full]>>,
                     all_depends |-> [i \in 1..Len(dr) |-> [pattern |-> Nth(SplitOn(deps[i], COLON), 1), short |-> dr[i].short, full |-> dr[i].full]],
                     scalars |-> [j \in 1..10 |-> ValueOf(block, KeyNames[ScalarKeys[j]])],
                     scan_depends |-> list(13), multi_version |-> list(15)]>>
ToIndex(block0) ==
    Let1(block0, LAMBDA block :
      Let2(ValueOf(block, KeyNames[1]), ValueOf(block, KeyNames[2]), LAMBDA name, loc :
        Let1(LET v == ValueOf(block, KeyNames[3]) IN IF v = <<>> THEN <<>> ELSE Fields(v[1], UniWs), LAMBDA deps :
          Let1([i \in 1..Len(deps) |-> DependNew(deps[i])], LAMBDA dr : ToIndexV(block, name, loc, deps, dr)))))
\* are all outcomes of this block fixed by the properties (glob subset; no blank before '=')?
BlockJudged(block) ==
    /\ \A l \in RangeOf(block) : LET i == FirstPos(l, EQ) IN i = 0 \/ TrimU(SubSeq(l, 1, i - 1)) = SubSeq(l, 1, i - 1)
    /\ LET v == ValueOf(block, KeyNames[3]) IN
       v = <<>> \/ \A d \in RangeOf(Fields(v[1], UniWs)) : DependJudged(d)

\* ---- the reader loop ----------------------------------------------------------------
InitScan == [buf |-> <<>>, recs |-> <<>>, st |-> "reading"]
Flush(s) == LET r == ToIndex(s.buf) IN
            IF r[1] = "err" THEN [s EXCEPT !.st = "failed"] ELSE [s EXCEPT !.recs = Append(@, r[2]), !.buf = <<>>]
StepLine(s, raw) ==
    LET l == TrimU(raw) IN
    IF s.st # "reading" \/ l = <<>> THEN s
    ELSE LET s1 == IF StartsWith(l, LitPkgnameEq) /\ s.buf # <<>> THEN Flush(s) ELSE s
         IN IF s1.st = "failed" THEN s1 ELSE [s1 EXCEPT !.buf = Append(@, l)]
\* an I/O error reported by the reader fails the whole read - except ErrorKind::Interrupted,
\* which every std reading loop retries and which therefore is invisible
StepIoError(s) == IF s.st = "reading" THEN [s EXCEPT !.st = "failed"] ELSE s
StepIoErrorKind(s, kind) == IF kind = "Interrupted" THEN s ELSE StepIoError(s)
StepEof(s) == IF s.st # "reading" THEN s
              ELSE LET s1 == IF s.buf # <<>> THEN Flush(s) ELSE s IN IF s1.st = "failed" THEN s1 ELSE [s1 EXCEPT !.st = "done"]

\* the property, declaratively: blocks are the maximal runs of (trimmed, non-empty) lines that
\* start at a "PKGNAME=" line (the first block starts at the first line)
\* state <<finished blocks, current block>>
BlocksOf(ls, i0, cur0) ==
    LET r == FoldL(LAMBDA st, l : IF StartsWith(l, LitPkgnameEq) /\ st[2] # <<>> THEN <<Append(st[1], st[2]), <<l>>>>
                                  ELSE <<st[1], Append(st[2], l)>>,
                   <<<<>>, cur0>>, SubSeq(ls, i0, Len(ls)))
    IN IF r[2] = <<>> THEN r[1] ELSE Append(r[1], r[2])
RECURSIVE BlocksOfRef(_, _, _)
BlocksOfRef(ls, i, cur) ==
    IF i > Len(ls) THEN (IF cur = <<>> THEN <<>> ELSE <<cur>>)
    ELSE IF StartsWith(ls[i], LitPkgnameEq) /\ cur # <<>> THEN <<cur>> \o BlocksOfRef(ls, i + 1, <<ls[i]>>)
    ELSE BlocksOfRef(ls, i + 1, Append(cur, ls[i]))
ReadRef(rawlines) ==
    LET ls == SelectSeq([i \in 1..Len(rawlines) |-> TrimU(rawlines[i])], LAMBDA l : l # <<>>)
        bs == BlocksOf(ls, 1, <<>>)
        rs == [i \in 1..Len(bs) |-> ToIndex(bs[i])]
    IN IF \E i \in 1..Len(rs) : rs[i][1] = "err" THEN <<"err">> ELSE <<"ok", [i \in 1..Len(rs) |-> rs[i][2]]>>
=============================================================================
