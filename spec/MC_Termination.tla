--------------------------- MODULE MC_Termination ---------------------------
(***************************************************************************)
(* C17 on the specification: the recursive procedures of the pattern       *)
(* matcher terminate, shown by variants that strictly decrease, for every  *)
(* pattern that is a concatenation of at most MaxPieces pieces.            *)
(*                                                                         *)
(*  BraceVariant   every pattern produced by one expansion step of the     *)
(*                 implemented algorithm (right-most group replaced by one *)
(*                 of its alternatives) has strictly fewer braces, so the  *)
(*                 recursion through Pattern::new / alternate_match is     *)
(*                 bounded by the number of braces;                        *)
(*  ExpansionBound the number of expansions is at most the product of the  *)
(*                 group sizes (at most (commas + 1) ^ groups);            *)
(*  TokVariant     one tokeniser step always moves the index forward;      *)
(*  GlobVariant    the glob matcher consumes a token or a character at     *)
(*                 every step (tokens + characters left decreases).        *)
(***************************************************************************)
EXTENDS Pattern, TLC

CONSTANTS MaxPieces

Pieces == { <<LBRACE>>, <<RBRACE>>, <<COMMA>>, <<97>>, <<STAR>>, <<GT, 49>>, <<110, 98>>, <<233>> }

VARIABLES p, n
Init == p = <<>> /\ n = 0
Next == n < MaxPieces /\ n' = n + 1 /\ \E x \in Pieces : p' = p \o x

Braces(s) == Cardinality({i \in 1..Len(s) : s[i] \in {LBRACE, RBRACE}})
Commas(s) == Cardinality({i \in 1..Len(s) : s[i] = COMMA})

StepExpansions(s) ==
    LET o  == LastPos(s, LBRACE)
        c  == FirstRBFrom(s, o)
        as == SplitOn(SubSeq(s, o + 1, c - 1), COMMA)
    IN { SubSeq(s, 1, o - 1) \o as[k] \o SubSeq(s, c + 1, Len(s)) : k \in 1..Len(as) }

BraceVariant == (HasAnyOf(p, {LBRACE, RBRACE}) /\ Balanced(p)) =>
                   \A e \in StepExpansions(p) : Braces(e) = Braces(p) - 2 /\ Balanced(e) /\ Len(e) < Len(p)
RECURSIVE Pow(_, _)
Pow(b, e) == IF e = 0 THEN 1 ELSE b * Pow(b, e - 1)
ExpansionBound == Balanced(p) => Cardinality(BraceAlg(p)) <= Pow(Commas(p) + 1, Braces(p) \div 2)
TokVariant == \A i \in 1..Len(p) : TokStep(p, i, 0)[1] > i
\* the glob parser consumes at least one character per token and never more than the pattern
GlobVariant == LET g == GlobParse(p) IN g.st = "ok" => Len(g.toks) <= Len(p)
=============================================================================
