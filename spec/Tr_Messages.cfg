CONSTANT Marker <- RealMarker
INIT Init
NEXT Next
INVARIANT Check
CHECK_DEADLOCK FALSE
