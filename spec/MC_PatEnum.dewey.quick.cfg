CONSTANTS MaxPieces = 4
  Mode = "dewey"
INIT Init
NEXT Next
INVARIANTS AlgIsCsh AlgIsRef CompileRule PlainIdentical DeweyIsGrammar DeweyAgrees TwoBound Emit
CHECK_DEADLOCK FALSE
