CONSTANTS MaxTok = 2
  Alphabet = "quick"
INIT Init
NEXT Next
INVARIANT Emit
CHECK_DEADLOCK FALSE
