CONSTANTS MaxTok = 2
  Full = FALSE
INIT Init
NEXT Next
INVARIANT Emit
CHECK_DEADLOCK FALSE
