---------------------------- MODULE MC_BestMatch ----------------------------
(***************************************************************************)
(* All pools of at most MaxPool candidates from Names, all patterns in     *)
(* Pats, all orders of pairwise reduction (TLC's interleavings of Reduce). *)
(* hist records the behaviour for spec -> impl replay (hidden from the     *)
(* fingerprint by VIEW in exhaustive mode, printed in simulation mode).    *)
(***************************************************************************)
EXTENDS BestMatch, TLC, Json

CONSTANTS MaxPool, EmitHist

Pats  == { <<123, 102, 111, 111, 44, 98, 97, 114, 125, 45, 91, 48, 45, 57, 93, 42>>,   \* {foo,bar}-[0-9]*
           <<102, 111, 111, 62, 61, 49, 60, 51>>,                                         \* foo>=1<3
           <<42>>,                                                                        \* *
           <<102, 111, 111, 45, 50, 46, 48>> }                                            \* foo-2.0
Names == { <<102, 111, 111, 45, 49, 46, 48>>,            \* foo-1.0
           <<98, 97, 114, 45, 49, 46, 48>>,              \* bar-1.0
           <<102, 111, 111, 45, 50, 46, 48>>,            \* foo-2.0
           <<98, 97, 114, 45, 50>>,                      \* bar-2
           <<102, 111, 111, 45, 50, 46, 48, 46, 48>>,    \* foo-2.0.0
           <<102, 111, 111, 45, 51>>,                    \* foo-3
           <<102, 111, 111>>,                            \* foo
           <<102, 111, 111, 45, 49, 46, 48, 110, 98, 49>>, \* foo-1.0nb1
           <<98, 97, 122, 45, 57>>,                      \* baz-9
           <<102, 111, 111, 45, 50, 46, 48, 114, 99, 49>>, \* foo-2.0rc1
           <<102, 111, 111, 43, 45, 49, 46, 48>>,          \* foo+-1.0   (ties with foo-1.0; '+' < '-')
           <<102, 111, 111, 45, 49, 45, 51>> }             \* foo-1-3    (ties with foo-3; base foo-1)

VARIABLES hist, phase
vars == <<pat, cands, pool, lb, hist, phase>>

Init == /\ lb = 0 /\ pat \in Pats /\ cands = <<>> /\ pool = <<>> /\ hist = <<>> /\ phase = "build"
Add  == /\ phase = "build" /\ Len(cands) < MaxPool
        /\ \E x \in Names : cands' = Append(cands, x) /\ pool' = Append(pool, <<x>>)
        /\ UNCHANGED <<pat, lb, hist, phase>>
Go   == /\ phase = "build" /\ Len(cands) >= 1 /\ phase' = "reduce" /\ UNCHANGED <<pat, cands, pool, lb, hist>>
Red  == /\ phase = "reduce"
        /\ \E i, j \in 1..Len(pool) :
              /\ Reduce(i, j)
              /\ hist' = IF EmitHist THEN Append(hist, [step |-> <<i, j>>, pool |-> pool']) ELSE hist
        /\ UNCHANGED phase
Next == Add \/ Go \/ Red
Spec == Init /\ [][Next]_vars

View == <<pat, cands, pool, phase>>

Final == phase = "reduce" => FinalOK
Unique == phase = "reduce" => WinnerUnique
PoolInv == PoolOK
\* pairwise: the result does not depend on argument order
Commutes == (phase = "reduce" /\ Len(pool) = 2) => BM2(pat, pool[1], pool[2], lb) = BM2(pat, pool[2], pool[1], lb)

Emit == (EmitHist /\ phase = "reduce" /\ Len(pool) = 1 /\ Len(cands) > 1) =>
          PrintT(<<"CASE", ToJson([op |-> "reduce",
                                   in |-> [p |-> pat, pool |-> cands, steps |-> [i \in 1..Len(hist) |-> hist[i].step]],
                                   out |-> [ok |-> "T", hist |-> [i \in 1..Len(hist) |-> hist[i].pool]]])>>)
=============================================================================
