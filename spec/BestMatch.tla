----------------------------- MODULE BestMatch -----------------------------
(***************************************************************************)
(* Pattern::best_match used as a reduction operator over a pool of         *)
(* candidates (C06).  The pool holds Option<name> values: <<>> is None,    *)
(* <<name>> is Some(name).  Reduce(i, j) replaces elements i and j by      *)
(* best_match of the two; a None absorbs (best_match(x, x) keeps x iff it  *)
(* matches).  Every order of reductions must end in the same winner: the   *)
(* matching candidate no other matching candidate beats.                   *)
(***************************************************************************)
EXTENDS Pattern

VARIABLES pat, cands, pool,
          lb      \* letter base: 0 = the property; 96 = named deviation KF1 (constant along a behaviour)
bmvars == <<pat, cands, pool, lb>>

\* best_match lifted to Option arguments
BM2(p, x, y, b) ==
    IF x = <<>> /\ y = <<>> THEN <<>>
    ELSE IF y = <<>> THEN BestMatchL(p, x[1], x[1], b)
    ELSE IF x = <<>> THEN BestMatchL(p, y[1], y[1], b)
    ELSE BestMatchL(p, x[1], y[1], b)

RemoveAt(s, j) == SubSeq(s, 1, j - 1) \o SubSeq(s, j + 1, Len(s))

ReduceResult(i, j) == RemoveAt([pool EXCEPT ![i] = BM2(pat, pool[i], pool[j], lb)], j)
Reduce(i, j) ==
    /\ i \in 1..Len(pool) /\ j \in 1..Len(pool) /\ i # j
    /\ pool' = ReduceResult(i, j)
    /\ UNCHANGED <<pat, cands, lb>>

\* the property for the whole candidate list
Winner == LET B == BestSetL(pat, RangeOf(cands), lb)
          IN IF B = {} THEN <<>> ELSE <<CHOOSE x \in B : TRUE>>
WinnerUnique == Cardinality(BestSetL(pat, RangeOf(cands), lb)) <= 1
FinalOK == Len(pool) = 1 => pool[1] \in {Winner} \cup
              (IF Len(cands) = 1 THEN {<<cands[1]>>} ELSE {})   \* a pool of one is never reduced
\* every element of the pool is None or a candidate that matches or has not been compared yet
PoolOK == \A i \in 1..Len(pool) : pool[i] = <<>> \/ pool[i][1] \in RangeOf(cands)
=============================================================================
