------------------------------ MODULE Tr_Names ------------------------------
(***************************************************************************)
(* Implementation -> specification for C18 and C19: validate recorded      *)
(* PkgName / Summary accessor / PkgPath / Depend outcomes.                 *)
(***************************************************************************)
EXTENDS PkgName, PkgPath, TLC, Json, IOUtils

Rec == ndJsonDeserialize(IOEnv.TRACE)
TF(b) == IF b THEN "T" ELSE "F"
Shape(o, keys) == keys \subseteq DOMAIN o

\* the revision as printed by the code (decimal text of an i64) -> normalised digits
RevObserved(o) == IF o.rev = <<>> THEN <<>>
                  ELSE IF IsDigits(o.rev[1]) THEN <<StripZeros(o.rev[1])>> ELSE <<"negative">>

ProbesOK(r, lb) == \A i \in 1..Len(r.out.probes) :
                      LET pr == r.out.probes[i] IN
                      \* {p, m}: does p match the name;  {p, b, w}: best_match(name, b) under p
                      IF "b" \in DOMAIN pr
                      THEN ~Judged(pr.p) \/ ~CompileOk(pr.p) \/ LongRun(pr.p) \/ LongRun(r.in.s) \/ LongRun(pr.b)
                           \/ pr.w = BestMatchL(pr.p, r.in.s, pr.b, lb)
                      ELSE ~Judged(pr.p) \/ LongRun(pr.p) \/ LongRun(r.in.s) \/ pr.m = TF(CompileOk(pr.p) /\ MatchL(pr.p, r.in.s, lb))

PkgNameVerdict(r) ==
    IF ~Shape(r.out, {"name", "base", "ver", "rev", "sb", "sv", "probes"}) THEN "bad"
    ELSE LET s == r.in.s  o == r.out  v == PkgVer(s)
             core == /\ o.name = s /\ o.base = PkgBase(s) /\ o.ver = v
                     /\ Rebuild([base |-> o.base, ver |-> o.ver], s) = s
                     /\ (HasDash(s) /\ NameBase(s) # <<>> /\ NameVer(s) # <<>>) => (o.sb = <<o.base>> /\ o.sv = <<o.ver>>)
                     /\ o.sb = SumBase(s) /\ o.sv = SumVer(s)
                     /\ RevJudged(v) => RevObserved(o) = RevExpected(v)
                     \* the reported revision is the one the comparison uses
                     /\ EndsNbDigits(v) => RevObserved(o) = <<Tok(v).rev>>
         IN IF core /\ ProbesOK(r, 0) THEN "ok"
            ELSE IF core /\ ProbesOK(r, 96) THEN "KF1"
            ELSE "bad"

PathVerdict(r) == IF r.out = PkgPathNew(r.in.s) /\ (r.out.ok = "T") = AcceptRef(r.in.s) THEN "ok" ELSE "bad"
DependVerdict(r) == IF ~DependJudged(r.in.s) THEN (IF Shape(r.out, {"ok"}) THEN "ok" ELSE "bad")
                    ELSE IF r.out = DependNew(r.in.s) THEN "ok" ELSE "bad"

Verdict(r) == CASE r.op = "pkgname" -> PkgNameVerdict(r)
                [] r.op = "pkgpath" -> PathVerdict(r)
                [] r.op = "depend"  -> DependVerdict(r)
                [] OTHER -> "bad"

VARIABLES k, blk
NB == 48
Init == blk \in 0..(NB - 1) /\ k = 0 /\ Len(Rec) >= 0    \* forces the one-time load of the trace
Next == k = 0 /\ k' \in {i \in 1..Len(Rec) : i % NB = blk} /\ UNCHANGED blk
Check == k = 0 \/ LET v == Verdict(Rec[k]) IN v = "ok" \/ PrintT(<<"MISMATCH", k, v>>)
=============================================================================
