--------------------------- MODULE MC_DeweyPairs ---------------------------
(***************************************************************************)
(* Spec -> implementation for C01: the complete table of comparison signs  *)
(* for all ordered pairs of versions built from at most MaxTok tokens.     *)
(* One CASE line per row A: the sign of Cmp(A, B) for every B, under the   *)
(* property (LetterBase 0) and - where it differs - under the named        *)
(* deviation KF1 (LetterBase 96).  The harness asks the real code every    *)
(* question expressible about each pair and compares.                      *)
(***************************************************************************)
EXTENDS Dewey, TLC, Json, SequencesExt

CONSTANTS MaxTok, Alphabet   \* "quick": reduced token alphabet; "full": all 31 tokens; "deep": 14 tokens, for MaxTok = 3

TokensFull == { Codes("0"), Codes("1"), Codes("2"), Codes("10"), Codes("007"), Codes("."), Codes("_"),
            Codes("alpha"), Codes("ALPHA"), Codes("Beta"), Codes("rc"), Codes("pre"), Codes("PRE"),
            Codes("pl"), Codes("nb"), Codes("NB3"), Codes("nb12"), Codes("a"), Codes("b"), Codes("z"),
            Codes("A"), Codes("Q"), <<233>>, Codes("+"), Codes("-"), Codes("~"), <<178>>, <<1635>>, <<65299>>, <<8490>>, <<304>> }
TokensQuick == { Codes("0"), Codes("1"), Codes("10"), Codes("."), Codes("_"),
            Codes("alpha"), Codes("Beta"), Codes("rc"), Codes("PRE"),
            Codes("pl"), Codes("NB3"), Codes("nb12"), Codes("a"), Codes("z"),
            Codes("Q"), <<8490>>, Codes("+"), <<178>>, <<1635>> }   \* 8490 = KELVIN SIGN: not ASCII, lower-cases to 'k' 
TokensDeep == { Codes("0"), Codes("1"), Codes("10"), Codes("."), Codes("_"), Codes("alpha"), Codes("beta"), Codes("rc"),
                Codes("PRE"), Codes("pl"), Codes("nb1"), Codes("a"), Codes("Z"), Codes("+") }
Tokens == CASE Alphabet = "full" -> TokensFull [] Alphabet = "deep" -> TokensDeep [] OTHER -> TokensQuick

VerSet == { Flatten(ts) : ts \in UNION { [1..n -> Tokens] : n \in 0..MaxTok } }
V  == SetToSeq(VerSet)
N  == Len(V)

\* may the text follow an operator in a pattern / be the version part of a name?
PatElig(v)  == ~(\E i \in 1..Len(v) : v[i] \in {LT, GT, LBRACE, RBRACE}) /\ (v = <<>> \/ v[1] # EQ)
NameElig(v) == ~Has(v, DASH)

\* a: 0 at the start, -g for group g of rows (so that the workers share the rows), then a row
\* number.  tab holds the two token tables as values: a constant definition [i \in 1..N |-> ...]
\* stays a lazy function in TLC and would tokenise again at every access.
VARIABLES a, tab
Groups == 16
Init == a = 0 /\ tab = <<[i \in 1..N |-> TokL(V[i], 0)], [i \in 1..N |-> TokL(V[i], 96)]>>
Next == /\ UNCHANGED tab
        /\ \/ a = 0 /\ a' \in {-g : g \in 1..Groups}
           \/ a < 0 /\ a' \in {i \in 1..N : (i % Groups) + 1 = -a}

Header == [op |-> "verlist",
           in |-> [vs |-> V, pe |-> [i \in 1..N |-> IF PatElig(V[i]) THEN "T" ELSE "F"],
                             ne |-> [i \in 1..N |-> IF NameElig(V[i]) THEN "T" ELSE "F"]]]
Row(i) == LET s0  == [j \in 1..N |-> CmpTok(tab[1][i], tab[1][j])]
              s96 == [j \in 1..N |-> CmpTok(tab[2][i], tab[2][j])]
          IN IF s0 = s96
             THEN [op |-> "verrow", in |-> [a |-> i], out |-> [sg |-> s0]]
             ELSE [op |-> "verrow", in |-> [a |-> i], out |-> [sg |-> s0], alt |-> [KF1 |-> [sg |-> s96]]]

Emit == a < 0 \/ PrintT(<<"CASE", ToJson(IF a = 0 THEN Header ELSE Row(a))>>)
=============================================================================
