------------------------------- MODULE PkgDb -------------------------------
(***************************************************************************)
(* Package database iteration and package metadata (src/pkgdb.rs,          *)
(* src/metadata.rs) - C20.  Text is scalar values.                         *)
(***************************************************************************)
EXTENDS PkgName

\* the 14 metadata entries in enum order: file name and how read_metadata stores the value
MetaTable == <<
    [file |-> <<43, 66, 85, 73, 76, 68, 95, 73, 78, 70, 79>>, kind |-> "lines", txt |-> "+BUILD_INFO"],
    [file |-> <<43, 66, 85, 73, 76, 68, 95, 86, 69, 82, 83, 73, 79, 78>>, kind |-> "lines", txt |-> "+BUILD_VERSION"],
    [file |-> <<43, 67, 79, 77, 77, 69, 78, 84>>, kind |-> "acc", txt |-> "+COMMENT"],
    [file |-> <<43, 67, 79, 78, 84, 69, 78, 84, 83>>, kind |-> "acc", txt |-> "+CONTENTS"],
    [file |-> <<43, 68, 69, 73, 78, 83, 84, 65, 76, 76>>, kind |-> "text", txt |-> "+DEINSTALL"],
    [file |-> <<43, 68, 69, 83, 67>>, kind |-> "acc", txt |-> "+DESC"],
    [file |-> <<43, 68, 73, 83, 80, 76, 65, 89>>, kind |-> "text", txt |-> "+DISPLAY"],
    [file |-> <<43, 73, 78, 83, 84, 65, 76, 76>>, kind |-> "text", txt |-> "+INSTALL"],
    [file |-> <<43, 73, 78, 83, 84, 65, 76, 76, 69, 68, 95, 73, 78, 70, 79>>, kind |-> "lines", txt |-> "+INSTALLED_INFO"],
    [file |-> <<43, 77, 84, 82, 69, 69, 95, 68, 73, 82, 83>>, kind |-> "lines", txt |-> "+MTREE_DIRS"],
    [file |-> <<43, 80, 82, 69, 83, 69, 82, 86, 69>>, kind |-> "lines", txt |-> "+PRESERVE"],
    [file |-> <<43, 82, 69, 81, 85, 73, 82, 69, 68, 95, 66, 89>>, kind |-> "lines", txt |-> "+REQUIRED_BY"],
    [file |-> <<43, 83, 73, 90, 69, 95, 65, 76, 76>>, kind |-> "int", txt |-> "+SIZE_ALL"],
    [file |-> <<43, 83, 73, 90, 69, 95, 80, 75, 71>>, kind |-> "int", txt |-> "+SIZE_PKG"]
>>
NM == Len(MetaTable)
MetaLiteralsOK == \A i \in 1..NM : MetaTable[i].file = Codes(MetaTable[i].txt)
\* to_filename / from_filename are inverse bijections over the 14 names
ToFilename(i) == MetaTable[i].file
FromFilename(f) == LET S == {i \in 1..NM : MetaTable[i].file = f} IN IF S = {} THEN 0 ELSE CHOOSE i \in S : TRUE
Bijection == /\ \A i \in 1..NM : FromFilename(ToFilename(i)) = i
             /\ \A i, j \in 1..NM : ToFilename(i) = ToFilename(j) => i = j
Mandatory == {3, 4, 6}        \* +COMMENT +CONTENTS +DESC

UniWsM == {9, 10, 11, 12, 13, 32, 133, 160, 5760, 8232, 8233, 8239, 8287, 12288} \cup (8192..8202)

\* ---- Metadata as a state machine: state = the 14 fields --------------------------------
\* "acc" fields are Strings that accumulate; the others are <<>> (None) or <<value>>
MetaInit == [i \in 1..NM |-> IF MetaTable[i].kind = "acc" THEN <<>> ELSE <<>>]
\* read_metadata(entry i, value): <<new state, "ok" | "err">>
ReadMetadata(st, i, value) ==
    LET v == Trim(value, UniWsM)
        k == MetaTable[i].kind
    IN CASE k = "acc"   -> <<[st EXCEPT ![i] = @ \o v], "ok">>
         [] k = "text"  -> <<[st EXCEPT ![i] = <<v>>], "ok">>
         [] k = "lines" -> <<[st EXCEPT ![i] = <<Lines(v)>>], "ok">>
         [] k = "int"   -> IF IsI64Text(v) THEN <<[st EXCEPT ![i] = <<I64Print(I64Value(v))>>], "ok">>
                           ELSE <<st, "err">>          \* after repair F9 (shipped: panic)
IsValid(st) == \A i \in Mandatory : st[i] # <<>>

\* ---- the database as a directory configuration -------------------------------------------
\* an entry of the database directory: [name, dir (BOOLEAN), files (subset of 1..14), utf8 (BOOLEAN)];
\* files may be zero-length: only their existence matters to the iterator.  utf8 = FALSE: the
\* directory name on disk is not valid UTF-8 (name = its valid prefix).
ValidPkg(e) == e.dir /\ Mandatory \subseteq e.files
\* what iteration must list (as a set of records; order is the directory's)
Listed(cfg) == { [pkgname |-> cfg[i].name, base |-> PkgBase(cfg[i].name), version |-> PkgVer(cfg[i].name)]
                 : i \in {j \in 1..Len(cfg) : ValidPkg(cfg[j]) /\ cfg[j].utf8} }
\* a complete package directory whose name is not UTF-8 cannot be a `String` pkgname: the
\* iterator reports it as one error item (and carries on with the next entry)
ItemErrors(cfg) == Cardinality({j \in 1..Len(cfg) : ValidPkg(cfg[j]) /\ ~cfg[j].utf8})
\* PkgDB::open by what the path is: a directory is a file-backed database; a regular file is
\* taken for a (not implemented) sqlite database and iterates to nothing; anything else is an error
OpenOutcome(root) == IF root \in {"dir", "file"} THEN "ok" ELSE "err"
DbListed(root, cfg) == IF root = "dir" THEN Listed(cfg) ELSE {}
DbErrors(root, cfg) == IF root = "dir" THEN ItemErrors(cfg) ELSE 0
=============================================================================
