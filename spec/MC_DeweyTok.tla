---------------------------- MODULE MC_DeweyTok ----------------------------
(***************************************************************************)
(* The tokeniser of DeweyVersion::new as a state machine: one action per   *)
(* rule of the property's table (and per branch of the code's loop), run   *)
(* on every concatenation of at most MaxTok tokens of an alphabet that     *)
(* contains every character class the rules distinguish.  Checks: the      *)
(* machine computes the functional definition Tok used everywhere else;    *)
(* the index strictly increases (termination); case-insensitivity; every   *)
(* character outside the table is ignored but still separates digit runs.  *)
(***************************************************************************)
EXTENDS Dewey, TLC

ASSUME DeweyLiteralsOK

CONSTANTS MaxTok

Tokens == { Codes("0"), Codes("1"), Codes("2"), Codes("10"), Codes("007"), Codes("."), Codes("_"),
            Codes("alpha"), Codes("ALPHA"), Codes("Beta"), Codes("rc"), Codes("pre"), Codes("PRE"),
            Codes("pl"), Codes("nb"), Codes("NB3"), Codes("nb12"), Codes("a"), Codes("b"), Codes("z"),
            Codes("A"), Codes("Q"), <<233>>, Codes("+"), Codes("-"), Codes("~"), <<178>>, <<1635>>, <<65299>>, <<8490>>, <<304>> }

VARIABLES s, n, phase, idx, ver, rev
vars == <<s, n, phase, idx, ver, rev>>

Init == s = <<>> /\ n = 0 /\ phase = "build" /\ idx = 1 /\ ver = <<>> /\ rev = <<>>

Build == /\ phase = "build" /\ n < MaxTok
         /\ \E t \in Tokens : s' = s \o t
         /\ n' = n + 1 /\ UNCHANGED <<phase, idx, ver, rev>>
Start == /\ phase = "build" /\ phase' = "run" /\ UNCHANGED <<s, n, idx, ver, rev>>

Step(rule) == /\ phase = "run" /\ idx <= Len(s) /\ TokRule(s, idx) = rule
              /\ LET st == TokStep(s, idx, 0) IN
                 /\ idx' = st[1]
                 /\ ver' = ver \o st[2]
                 /\ rev' = IF st[3] = <<>> THEN rev ELSE st[3][1]
              /\ UNCHANGED <<s, n, phase>>
\* one named action per rule (so that TLC's coverage reports each rule separately)
Digits == TRUE /\ Step("Digits")    Sep == TRUE /\ Step("Sep")      Nb  == TRUE /\ Step("Nb")
AlphaM == TRUE /\ Step("Alpha")     BetaM == TRUE /\ Step("Beta")   Rc  == TRUE /\ Step("Rc")
Pre    == TRUE /\ Step("Pre")       Pl    == TRUE /\ Step("Pl")     Letter == TRUE /\ Step("Letter")
Skip   == TRUE /\ Step("Skip")
Finish == /\ phase = "run" /\ idx > Len(s) /\ phase' = "done" /\ UNCHANGED <<s, n, idx, ver, rev>>

Next == Build \/ Start \/ Digits \/ Sep \/ Nb \/ AlphaM \/ BetaM \/ Rc \/ Pre \/ Pl \/ Letter \/ Skip \/ Finish
Spec == Init /\ [][Next]_vars

MachineIsTok == phase = "done" => [ver |-> ver, rev |-> rev] = Tok(s)
Progress     == [][phase = "run" /\ phase' = "run" => idx' > idx]_vars
InRange      == phase = "run" => idx <= Len(s) + 1
\* laws, evaluated once per input (at the start of the run)
AtStart == phase = "run" /\ idx = 1 /\ ver = <<>> /\ rev = <<>>
CaseInsensitive == AtStart => Tok(s) = Tok(LowerSeq(s)) /\ Tok(s) = Tok([i \in 1..Len(s) |-> IF s[i] \in LowerCase THEN s[i] - 32 ELSE s[i]])
IsSkipped(c) == c \notin Digit /\ c \notin Alpha /\ c \notin {DOT, USCORE}
SkipLaw == AtStart => Tok(s) = Tok([i \in 1..Len(s) |-> IF IsSkipped(s[i]) THEN 43 ELSE s[i]])
\* deviation KF1 only moves letter weights
LetterOnly == AtStart => (\A i \in 1..Len(s) : TokRule(s, i) # "Letter" \/ TRUE) /\ TokL(s, 96).rev = Tok(s).rev /\ Len(TokL(s, 96).ver) = Len(Tok(s).ver)
=============================================================================
