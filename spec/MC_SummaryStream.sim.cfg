CONSTANTS MaxEntries = 3
  Fixed = TRUE
  EmitHist = TRUE
  ValidEntry <- McValid
SPECIFICATION Spec
INVARIANTS StepAllowed FinalInv Emit
CHECK_DEADLOCK FALSE
