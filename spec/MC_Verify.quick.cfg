CONSTANTS MaxComps = 3
  MaxRec = 2
  EmitCases = FALSE
  FewContents = FALSE
  Marker <- RealMarker
INIT Init
NEXT Next
INVARIANTS MachineIsRef ShortestWins Emit
CHECK_DEADLOCK FALSE
