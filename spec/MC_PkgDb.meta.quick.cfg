CONSTANTS MaxItems = 2
  Mode = "meta"
INIT Init
NEXT Next
INVARIANTS EachOnce SplitOK ValidRule Emit
CHECK_DEADLOCK FALSE
