CONSTANTS MaxLen = 9
  EmitHist = FALSE
  Marker <- ShortMarker
SPECIFICATION Spec
VIEW View
INVARIANTS Inv1 Inv2
CHECK_DEADLOCK FALSE
