------------------------------ MODULE Messages ------------------------------
(***************************************************************************)
(* The text a user sees: Display of the library's error types, and which   *)
(* error variant each failing entry point returns.  Not part of any of the *)
(* twenty listed properties (several of them explicitly leave the error    *)
(* kind open); specified here because it is observable API, and validated  *)
(* by the unregistered extension check `bin/check EXT`.                    *)
(***************************************************************************)
EXTENDS Pattern

\* decimal text of a small natural number
Dec(n) == NatDigits(n)

(* DeweyError: "Pattern syntax error near position {pos}: {msg}"            *)
LitSyntax == Codes("Pattern syntax error near position ")
DeweyMsgNone  == Codes("No dewey operators found")
DeweyMsgOrder == Codes("Unsupported operator order")
DeweyMsgMany  == Codes("Too many dewey operators found")
\* <<pos (0-based byte offset in the UTF-8 text), message>> of Dewey::new's error, for patterns it rejects
DeweyError(p) ==
    LET ps == OpPosSeq(p)
        ByteOff(i) == Len(Encode(SubSeq(p, 1, i - 1)))      \* 0-based byte offset of character i
    IN IF Len(ps) = 0 THEN <<0, DeweyMsgNone>>
       ELSE IF Len(ps) >= 3 THEN <<ByteOff(ps[3]), DeweyMsgMany>>
       ELSE <<ByteOff(ps[1]), DeweyMsgOrder>>
DeweyErrorText(p) == LET e == DeweyError(p) IN LitSyntax \o Dec(e[1]) \o <<COLON, SP>> \o e[2]

(* PatternError variants by dispatch                                        *)
PatternErrorKind(p) ==
    CASE Kind(p) = "alt" -> "Alternate"
      [] Kind(p) = "dewey" -> "Dewey"
      [] Kind(p) = "glob" -> "Glob"
      [] OTHER -> "none"
LitUnbalanced == Codes("Unbalanced braces in pattern")

(* PkgPathError / DependError                                               *)
LitInvalidPath   == Codes("Invalid path specified")
LitInvalidDepend == Codes("Invalid DEPENDS string")

(* SummaryError                                                             *)
LitParseLine == Codes("not correctly formatted (VARIABLE=VALUE): ")
LitNotSupported == Codes(" is not a supported pkg_summary variable")
LitMissing == Codes("missing required variable ")
SummaryErrorText(kind, arg) ==
    CASE kind = "ParseLine" -> LitParseLine \o arg
      [] kind = "ParseVariable" -> <<39>> \o arg \o <<39>> \o LitNotSupported
      [] kind = "Incomplete" -> LitMissing \o arg
      [] OTHER -> <<>>

(* PlistError                                                               *)
LitUnsupportedCmd == Codes("unsupported plist command: ")
LitBadArgs == Codes("incorrect command arguments: ")
LitBadUtf8 == Codes("invalid UTF-8 sequence: ")

(* DigestError / DistinfoError                                              *)
LitUnsupportedDigest == Codes("Unsupported digest: ")
LitNotFound == Codes("File not found")
=============================================================================
