CONSTANT MaxLen = 3
SPECIFICATION Spec
INVARIANTS Transitive TwoBound
CHECK_DEADLOCK FALSE
