------------------------------ MODULE MC_Digest ------------------------------
(***************************************************************************)
(* All inputs of length <= MaxLen over {x, newline, $, N} with the marker  *)
(* shortened to "$N" (so that a read boundary can fall inside it within    *)
(* the bound), all schedules of reads of 1..3 bytes, Interrupted anywhere, *)
(* one hard error anywhere.  Behaviours are emitted for replay through a   *)
(* scripted reader on the real hash_file / hash_patch.                     *)
(***************************************************************************)
EXTENDS DigestReader, TLC, Json

CONSTANTS MaxLen, EmitHist
ASSUME DigestLiteralsOK

VARIABLES phase, sched
vars == <<mode, input, pos, pending, absorbed, status, phase, sched>>

Sym == {120, NL, 36, 78}
Init == /\ mode \in {"plain", "patch"} /\ input = <<>> /\ pos = 0 /\ pending = <<>> /\ absorbed = <<>>
        /\ status = "reading" /\ phase = "build" /\ sched = <<>>
Build == /\ phase = "build" /\ Len(input) < MaxLen /\ \E c \in Sym : input' = Append(input, c)
         /\ UNCHANGED <<mode, pos, pending, absorbed, status, phase, sched>>
Go == phase = "build" /\ phase' = "run" /\ UNCHANGED <<mode, input, pos, pending, absorbed, status, sched>>
Log(ev) == sched' = IF EmitHist THEN Append(sched, ev) ELSE sched
Next == \/ Build \/ Go
        \/ (phase = "run" /\ \E k \in 1..3 : Read(k) /\ Log(<<"read", k>>) /\ UNCHANGED phase)
        \/ (phase = "run" /\ EmitHist /\ Len(sched) < 12 /\ Interrupted /\ Log(<<"intr", 0>>) /\ UNCHANGED phase)
        \/ (phase = "run" /\ HardError /\ Log(<<"err", 0>>) /\ UNCHANGED phase)
        \/ (phase = "run" /\ Eof /\ Log(<<"eof", 0>>) /\ UNCHANGED phase)
Spec == Init /\ [][Next]_vars
View == <<mode, input, pos, pending, absorbed, status, phase>>

\* in this instance the marker is the two symbols "$N"
ShortMarker == <<36, 78>>
Inv1 == ResultOK
Inv2 == PrefixInv

\* abstract -> real bytes: 'N' is "NetBSD" (so "$N" is the real marker, a read boundary between the
\* two symbols falls inside it, and a lone 'N' is the word without the dollar sign, which must
\* NOT be filtered); everything else is itself
Conc(c) == IF c = 78 THEN <<78, 101, 116, 66, 83, 68>> ELSE <<c>>
Concrete(b) == Flatten([i \in 1..Len(b) |-> Conc(b[i])])
ConcSched == LET RECURSIVE Go2(_, _)
                 Go2(i, p) == IF i > Len(sched) THEN <<>>
                              ELSE IF sched[i][1] = "read"
                                   THEN <<<<"read", Len(Concrete(SubSeq(input, p + 1, p + sched[i][2])))>>>> \o Go2(i + 1, p + sched[i][2])
                                   ELSE <<sched[i]>> \o Go2(i + 1, p)
             IN Go2(1, 0)
Emit == (EmitHist /\ status \in {"done", "error"}) =>
          PrintT(<<"CASE", ToJson([op |-> "digest",
                    in |-> [mode |-> mode, data |-> Concrete(input), sched |-> ConcSched],
                    out |-> IF status = "error" THEN [err |-> "T"] ELSE [absorbed |-> Concrete(absorbed)]])>>)
=============================================================================
