CONSTANTS MaxItems = 3
  Mode = "db"
INIT Init
NEXT Next
INVARIANTS EachOnce SplitOK ValidRule Emit
CHECK_DEADLOCK FALSE
