------------------------------ MODULE PkgPath ------------------------------
(***************************************************************************)
(* PKGPATH and DEPENDS parsing (src/pkgpath.rs, src/depend.rs) - C19.      *)
(* Components(s) is Rust's Path::components on Unix: repeated and trailing *)
(* slashes and non-leading "." segments vanish, a leading "/" is RootDir,  *)
(* a leading "." is CurDir, ".." is ParentDir, anything else Normal.       *)
(* A component is <<kind, text>>.                                          *)
(***************************************************************************)
EXTENDS Pattern

DotSeg    == <<DOT>>
DotDotSeg == <<DOT, DOT>>

Components(s) ==
    LET segs  == SplitOn(s, SLASH)
        root  == s # <<>> /\ s[1] = SLASH
        Comp(i) == LET g == segs[i] IN
                   IF g = <<>> THEN <<>>
                   ELSE IF g = DotSeg THEN (IF i = 1 /\ ~root THEN <<<<"CurDir", g>>>> ELSE <<>>)
                   ELSE IF g = DotDotSeg THEN <<<<"ParentDir", g>>>>
                   ELSE <<<<"Normal", g>>>>
    IN (IF root THEN <<<<"RootDir", <<SLASH>>>>>> ELSE <<>>) \o Flatten([i \in 1..Len(segs) |-> Comp(i)])

Kinds(c) == [i \in 1..Len(c) |-> c[i][1]]

\* PkgPath::new: ok, and the two stored paths as component sequences
PkgPathNew(s) ==
    LET c == Components(s) IN
    IF Kinds(c) = <<"Normal", "Normal">> THEN
        [ok |-> "T", short |-> c, full |-> <<<<"ParentDir", DotDotSeg>>, <<"ParentDir", DotDotSeg>>>> \o c]
    ELSE IF Kinds(c) = <<"ParentDir", "ParentDir", "Normal", "Normal">> THEN
        [ok |-> "T", short |-> SubSeq(c, 3, 4), full |-> c]
    ELSE [ok |-> "F"]

\* the statement, independently: the segments that survive are exactly two ordinary names,
\* optionally preceded by exactly two ".."
Ordinary(g) == g # <<>> /\ g # DotSeg /\ g # DotDotSeg
AcceptRef(s) ==
    LET segs == SplitOn(s, SLASH)
        kept == SelectSeq([i \in 1..Len(segs) |-> <<i, segs[i]>>],
                          LAMBDA x : x[2] # <<>> /\ ~(x[2] = DotSeg /\ (x[1] > 1 \/ s[1] = SLASH)))
        txt  == [i \in 1..Len(kept) |-> kept[i][2]]
    IN /\ s # <<>> /\ s[1] # SLASH
       /\ \/ (Len(txt) = 2 /\ Ordinary(txt[1]) /\ Ordinary(txt[2]))
          \/ (Len(txt) = 4 /\ txt[1] = DotDotSeg /\ txt[2] = DotDotSeg /\ Ordinary(txt[3]) /\ Ordinary(txt[4]))

\* text of a component sequence, joined with '/'
RECURSIVE JoinSlash(_)
JoinSlash(c) == IF c = <<>> THEN <<>> ELSE IF Len(c) = 1 THEN c[1][2] ELSE c[1][2] \o <<SLASH>> \o JoinSlash(Tail(c))

\* Depend::new: exactly one ':' and both halves valid
DependNew(s) ==
    LET parts == SplitOn(s, COLON) IN
    IF Len(parts) # 2 THEN [ok |-> "F"]
    ELSE IF ~CompileOk(parts[1]) THEN [ok |-> "F"]
    ELSE LET pp == PkgPathNew(parts[2]) IN
         IF pp.ok = "F" THEN [ok |-> "F"] ELSE [ok |-> "T", short |-> pp.short, full |-> pp.full]
DependJudged(s) == LET parts == SplitOn(s, COLON) IN Len(parts) # 2 \/ Judged(parts[1])
=============================================================================
