---------------------------- MODULE ApaDeweyLaws ----------------------------
(***************************************************************************)
(* C03 on the specification with SYMBOLIC integer components (Apalache):   *)
(* the zero-padded lexicographic order with the revision as last key is a  *)
(* total preorder, for all component vectors of length <= MaxLen over ALL  *)
(* integers (TLC's instances MC_DeweyCmp / MC_DeweyLaws bound the values   *)
(* to {-3..2}).  Components are plain integers here: modifiers negative,   *)
(* numbers >= 0 - the order on the pairs <<weight, digits>> of Dewey.tla   *)
(* is isomorphic to the order of these integers.                           *)
(* Recursion-free: "a < b" is "there is a first position where a is        *)
(* smaller" (positions beyond the length read as 0).                       *)
(***************************************************************************)
EXTENDS Integers, Sequences, Apalache

MaxLen == 4

VARIABLES
    \* @type: Seq(Int);
    va,
    \* @type: Seq(Int);
    vb,
    \* @type: Seq(Int);
    vc,
    \* @type: Int;
    ra,
    \* @type: Int;
    rb,
    \* @type: Int;
    rc

\* @type: (Seq(Int), Int) => Int;
At(v, i) == IF i <= Len(v) THEN v[i] ELSE 0

\* @type: (Seq(Int), Seq(Int)) => Bool;
VecLt(x, y) == \E i \in 1..MaxLen : At(x, i) < At(y, i) /\ \A j \in 1..MaxLen : j < i => At(x, j) = At(y, j)
\* @type: (Seq(Int), Seq(Int)) => Bool;
VecEq(x, y) == \A i \in 1..MaxLen : At(x, i) = At(y, i)

\* @type: (Seq(Int), Int, Seq(Int), Int) => Bool;
Lt(x, rx, y, ry) == VecLt(x, y) \/ (VecEq(x, y) /\ rx < ry)
\* @type: (Seq(Int), Int, Seq(Int), Int) => Bool;
Le(x, rx, y, ry) == VecLt(x, y) \/ (VecEq(x, y) /\ rx <= ry)

Init == /\ va = Gen(MaxLen) /\ vb = Gen(MaxLen) /\ vc = Gen(MaxLen)
        /\ ra = Gen(1) /\ rb = Gen(1) /\ rc = Gen(1)
Next == UNCHANGED <<va, vb, vc, ra, rb, rc>>

\* exactly one of a<b, b<a, (a<=b and b<=a)
Trichotomy ==
    LET lt == Lt(va, ra, vb, rb)  gt == Lt(vb, rb, va, ra)  eq == Le(va, ra, vb, rb) /\ Le(vb, rb, va, ra)
    IN (lt /\ ~gt /\ ~eq) \/ (~lt /\ gt /\ ~eq) \/ (~lt /\ ~gt /\ eq)
\* <= is the negation of >, >= the negation of <
Duality == Le(va, ra, vb, rb) = ~Lt(vb, rb, va, ra)
Reflexive == Le(va, ra, va, ra)
Transitive == (Le(va, ra, vb, rb) /\ Le(vb, rb, vc, rc)) => Le(va, ra, vc, rc)
StrictTransitive == (Lt(va, ra, vb, rb) /\ Le(vb, rb, vc, rc)) => Lt(va, ra, vc, rc)
Laws == Trichotomy /\ Duality /\ Reflexive /\ Transitive /\ StrictTransitive

(***************************************************************************)
(* The implemented comparison dewey_cmp(l, op, r) - common prefix, one of  *)
(* two asymmetric padding loops, revision - written without recursion      *)
(* ("the first position where ..."), and its equality with the declarative *)
(* order for all four operators, on va/ra versus vb/rb.                    *)
(***************************************************************************)
\* @type: (Int, Str, Int) => Bool;
Test(x, op, y) == IF op = "GT" THEN x > y ELSE IF op = "GE" THEN x >= y ELSE IF op = "LT" THEN x < y ELSE x <= y

\* @type: (Seq(Int), Int, Str, Seq(Int), Int) => Bool;
Alg(l, rl, op, r, rr) ==
    LET ll == Len(l)
        lr == Len(r)
        m  == IF ll < lr THEN ll ELSE lr
        CommonSame == \A j \in 1..MaxLen : j <= m => l[j] = r[j]
    IN \/ \E i \in 1..MaxLen :                                   \* first differing common position decides
            /\ i <= m /\ l[i] # r[i]
            /\ \A j \in 1..MaxLen : j < i => l[j] = r[j]
            /\ Test(l[i], op, r[i])
       \/ /\ CommonSame /\ ll < lr
          /\ \/ \E i \in 1..MaxLen :                             \* lhs shorter: 0 against the first non-zero of rhs
                   /\ ll < i /\ i <= lr /\ r[i] # 0
                   /\ \A j \in 1..MaxLen : (ll < j /\ j < i) => r[j] = 0
                   /\ Test(0, op, r[i])
             \/ ((\A j \in 1..MaxLen : (ll < j /\ j <= lr) => r[j] = 0) /\ Test(rl, op, rr))
       \/ /\ CommonSame /\ ll > lr
          /\ \/ \E i \in 1..MaxLen :                             \* lhs longer: its first non-zero against 0
                   /\ lr < i /\ i <= ll /\ l[i] # 0
                   /\ \A j \in 1..MaxLen : (lr < j /\ j < i) => l[j] = 0
                   /\ Test(l[i], op, 0)
             \/ ((\A j \in 1..MaxLen : (lr < j /\ j <= ll) => l[j] = 0) /\ Test(rl, op, rr))
       \/ (CommonSame /\ ll = lr /\ Test(rl, op, rr))

\* @type: (Seq(Int), Int, Str, Seq(Int), Int) => Bool;
Ref(l, rl, op, r, rr) ==
    IF op = "GT" THEN Lt(r, rr, l, rl) ELSE IF op = "GE" THEN Le(r, rr, l, rl)
    ELSE IF op = "LT" THEN Lt(l, rl, r, rr) ELSE Le(l, rl, r, rr)

AlgIsRef == \A op \in {"GT", "GE", "LT", "LE"} : Alg(va, ra, op, vb, rb) = Ref(va, ra, op, vb, rb)
=============================================================================
