---------------------------- MODULE MC_DeweyLaws ----------------------------
(***************************************************************************)
(* C03 on the specification: transitivity of the declarative order over    *)
(* all triples of a bounded domain of tokenised versions, and "a two-bound *)
(* pattern matches exactly when both halves match".                        *)
(***************************************************************************)
EXTENDS Dewey, TLC

CONSTANTS MaxLen
Comps == {Mod(-1), Zero, Num(<<49>>)}
Revs  == {<<>>, <<49>>}
Vecs  == UNION {[1..n -> Comps] : n \in 0..MaxLen}
Versions == {[ver |-> v, rev |-> rv] : v \in Vecs, rv \in Revs}

VARIABLES a, b, c, n
vars == <<a, b, c, n>>
None == [ver |-> <<>>, rev |-> <<>>]
Init == a \in Versions /\ b = None /\ c = None /\ n = 1
PickB == n = 1 /\ b' \in Versions /\ n' = 2 /\ UNCHANGED <<a, c>>
PickC == n = 2 /\ c' \in Versions /\ n' = 3 /\ UNCHANGED <<a, b>>
Next == PickB \/ PickC
Spec == Init /\ [][Next]_vars

Le(x, y) == CmpTok(x, y) <= 0
Transitive == n = 3 => /\ (Le(a, b) /\ Le(b, c) => Le(a, c))
                       /\ (CmpTok(a, b) = 0 /\ CmpTok(b, c) = 0 => CmpTok(a, c) = 0)
                       /\ (CmpTok(a, b) < 0 /\ Le(b, c) => CmpTok(a, c) < 0)
\* the machine of dewey_cmp inherits the laws because MC_DeweyCmp shows machine = CmpTok;
\* a two-bound pattern: both bounds hold  <=>  each single-bound half holds
TwoBound == n = 3 => \A o1 \in {"GT", "GE"}, o2 \in {"LT", "LE"} :
               (DeweyCmpAlg(b, o1, a) /\ DeweyCmpAlg(b, o2, c))
                 = (OpHolds(o1, CmpTok(b, a)) /\ OpHolds(o2, CmpTok(b, c)))
=============================================================================
