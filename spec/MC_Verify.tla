------------------------------ MODULE MC_Verify ------------------------------
(***************************************************************************)
(* C12 on the specification: the lookup machine (grow the trailing         *)
(* sub-path component by component, first hit wins, map chosen by the file *)
(* type of the path) equals "the shortest recorded trailing sub-path", for *)
(* every path of <= MaxComps components over {a, b, f, patch-p} and every  *)
(* set of <= MaxRec recorded names drawn from its trailing sub-paths and   *)
(* distractors sharing a tail.  Each configuration, with contents and      *)
(* single corruptions of content, recorded hash and recorded size, is      *)
(* emitted as a verification case for the real code on real files.         *)
(***************************************************************************)
EXTENDS Distinfo, TLC, Json, SequencesExt

CONSTANTS MaxComps, MaxRec, EmitCases, FewContents

CompSet == { <<97>>, <<98>>, <<102>>, Codes("patch-p") }
AllContents == { <<>>, <<120, NL>>, <<120>>, Codes("$NetBSD$") \o <<NL, 120, NL>>, <<120, NL>> \o Codes("k $NetBSD: y $") }
Contents == IF FewContents THEN { <<120>>, Codes("$NetBSD$") \o <<NL, 120, NL>> } ELSE AllContents

VARIABLES cs, names, phase
Init == cs = <<>> /\ names = <<>> /\ phase = "path"
AddComp == phase = "path" /\ Len(cs) < MaxComps /\ \E c \in CompSet : cs' = Append(cs, c) /\ UNCHANGED <<names, phase>>
Fix == phase = "path" /\ Len(cs) >= 1 /\ phase' = "names" /\ UNCHANGED <<cs, names>>
Candidates == { Suffix(cs, n) : n \in 1..Len(cs) }
              \cup { x \o <<SLASH>> \o cs[Len(cs)] : x \in CompSet }                   \* distractors sharing the tail
              \cup { cs[Len(cs)] \o <<50>>, <<120, SLASH>> \o Suffix(cs, Len(cs)) }     \* near misses
AddName == phase = "names" /\ Len(names) < MaxRec
           /\ \E x \in Candidates : x \notin RangeOf(names) /\ names' = Append(names, x)
           /\ UNCHANGED <<cs, phase>>
Next == AddComp \/ Fix \/ AddName

D == LET RECURSIVE Go(_, _)
         Go(i, d) == IF i > Len(names) THEN d ELSE Go(i + 1, SizeLine(d, names[i], <<48 + i>>))
     IN Go(1, EmptyDI)
MachineIsRef == phase = "names" => FindEntry(D, cs) = FindRef(D, cs)
ShortestWins == phase = "names" =>
                  LET i == FindRef(D, cs) IN
                  i # 0 => \A n \in 1..Len(cs) : (IndexOf(MapFor(D, cs), Suffix(cs, n)) # 0) => Len(MapFor(D, cs)[i].name) <= Len(Suffix(cs, n))

\* cases: per recorded name one checksum line (algorithm by position) and one size line
CaseLines(content, variant) ==
    Flatten([i \in 1..Len(names) |->
        << [kind |-> "sum", alg |-> ((i + variant) % 6) + 1, name |-> names[i],
            of |-> IF variant = 3 THEN "other" ELSE IF variant = 5 THEN "plain" ELSE "content",
            flip |-> CASE variant = 1 -> 1 [] variant = 2 -> 9 [] variant = 4 -> 32 [] OTHER -> 0,
            upper |-> IF variant = 7 THEN 3 ELSE 0],
           [kind |-> "size", name |-> names[i],
            n |-> NatDigits(Len(content) + (IF variant = 6 THEN 1 ELSE 0))] >>])
Emit == (EmitCases /\ phase = "names" /\ Len(names) >= 1) =>
          \A content \in Contents : \A v \in 0..7 :
             PrintT(<<"CASE", ToJson([op |-> "verify", in |-> [path |-> cs, content |-> content, lines |-> CaseLines(content, v), rewrite |-> Len(content)]])>>)
=============================================================================
