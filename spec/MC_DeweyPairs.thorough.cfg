CONSTANTS MaxTok = 2
  Full = TRUE
INIT Init
NEXT Next
INVARIANT Emit
CHECK_DEADLOCK FALSE
