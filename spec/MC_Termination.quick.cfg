CONSTANT MaxPieces = 6
INIT Init
NEXT Next
INVARIANTS BraceVariant ExpansionBound TokVariant GlobVariant
CHECK_DEADLOCK FALSE
