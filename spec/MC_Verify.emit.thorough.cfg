CONSTANTS MaxComps = 3
  MaxRec = 2
  EmitCases = TRUE
  FewContents = FALSE
  Marker <- RealMarker
INIT Init
NEXT Next
INVARIANTS MachineIsRef ShortestWins Emit
CHECK_DEADLOCK FALSE
