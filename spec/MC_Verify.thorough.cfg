CONSTANTS MaxComps = 4
  MaxRec = 3
  EmitCases = FALSE
  FewContents = FALSE
  Marker <- RealMarker
INIT Init
NEXT Next
INVARIANTS MachineIsRef ShortestWins Emit
CHECK_DEADLOCK FALSE
