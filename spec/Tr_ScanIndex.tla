---------------------------- MODULE Tr_ScanIndex ----------------------------
(***************************************************************************)
(* Trace validation for C16: a record is one call of                       *)
(* ScanIndex::from_reader on a scripted reader: {lines, err_at, final_nl}  *)
(* -> {ok: records} | {err}.  The lines are replayed through the reader    *)
(* machine of ScanIndex.tla (StepLine / StepIoError / StepEof); the result *)
(* must be the machine's, which must also be the declarative reading.      *)
(***************************************************************************)
EXTENDS ScanIndex, TLC, Json, IOUtils

Rec == ndJsonDeserialize(IOEnv.TRACE)

VARIABLES k, l, s
vars == <<k, l, s>>
Done == 99999
RLines == Rec[k].in.lines
ErrAt == Rec[k].in.err_at
ErrKind == IF "err_kind" \in DOMAIN Rec[k].in THEN Rec[k].in.err_kind ELSE "Other"

Init == k \in 1..Len(Rec) /\ l = 1 /\ s = InitScan

\* the scripted reader fails when asked for line ErrAt; before that it delivers the lines
\* a hard error is reported when the reader is asked for line ErrAt (possibly after half of it);
\* ErrorKind::Interrupted is retried by the standard reading loop and changes nothing
Hard    == ErrAt # 0 /\ ErrKind # "Interrupted"
Line    == l # Done /\ s.st = "reading" /\ l <= Len(RLines) /\ (~Hard \/ l < ErrAt)
           /\ s' = StepLine(s, RLines[l]) /\ l' = l + 1 /\ UNCHANGED k
IoError == l # Done /\ s.st = "reading" /\ Hard /\ l = ErrAt /\ s' = StepIoErrorKind(s, ErrKind) /\ l' = l + 1 /\ UNCHANGED k
Eof     == l # Done /\ s.st = "reading" /\ ~Hard /\ l = Len(RLines) + 1 /\ s' = StepEof(s) /\ l' = l + 1 /\ UNCHANGED k
Step == Line \/ IoError \/ Eof

RECURSIVE AllBlocksJudged(_, _)
AllBlocksJudged(bs, i) == i > Len(bs) \/ (BlockJudged(bs[i]) /\ AllBlocksJudged(bs, i + 1))
JudgedInput == LET ls == SelectSeq([i \in 1..Len(RLines) |-> TrimU(RLines[i])], LAMBDA x : x # <<>>)
               IN AllBlocksJudged(BlocksOf(ls, 1, <<>>), 1)
Terminal ==
    /\ s.st \in {"failed", "done"}
    /\ ~JudgedInput \/
       /\ Rec[k].out = (IF s.st = "failed" THEN [err |-> "T"] ELSE [ok |-> s.recs])
       /\ (~Hard => (IF s.st = "failed" THEN <<"err">> ELSE <<"ok", s.recs>>) = ReadRef(RLines))
Reject == /\ l # Done /\ ~ENABLED Step /\ ~Terminal
          /\ PrintT(<<"MISMATCH", k, "base">>)
          /\ l' = Done /\ UNCHANGED <<k, s>>
Next == Step \/ Reject
=============================================================================
