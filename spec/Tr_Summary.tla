----------------------------- MODULE Tr_Summary -----------------------------
(***************************************************************************)
(* Trace validation for C07 / C08 (and the Summary part of C17).           *)
(*  sumhist  {steps} -> {snaps, texts, done, stable, reparse}: a call      *)
(*           history on a real Summary, replayed through the entry machine *)
(*           of Summary.tla (SetVal / PushVal): after every call the 23    *)
(*           getters, the printed text and is_completed() must be the      *)
(*           specified ones; the text must be the same on every fresh      *)
(*           instance (stable); parsing the final text gives the entry     *)
(*           back or names a cause that is present.                        *)
(*  sumparse {text} -> {ok, text, done} | {err: [kind, arg]}               *)
(* A step that the specification cannot explain takes Reject.              *)
(***************************************************************************)
EXTENDS Summary, TLC, Json, IOUtils

Rec == ndJsonDeserialize(IOEnv.TRACE)
TF(b) == IF b THEN "T" ELSE "F"

ParseOK(t, o) ==
    LET r == Parse(t) IN
    IF "ok" \in DOMAIN o THEN
         /\ Causes(t) = {} /\ r[1] = "ok"
         /\ o.ok = r[2] /\ o.text = Render(r[2]) /\ o.done = "T"
    ELSE IF "err" \in DOMAIN o THEN <<o.err[1], o.err[2]>> \in Causes(t)
    ELSE FALSE

VARIABLES k, l, e
vars == <<k, l, e>>
Done == 9999

Init == k \in 1..Len(Rec) /\ l = 1 /\ e = Empty

IsHist == Rec[k].op = "sumhist" /\ {"snaps", "texts", "done", "stable", "reparse", "pb", "pv", "desc"} \subseteq DOMAIN Rec[k].out
Steps == Rec[k].in.steps
ArgOf(st) == LET v == st[2] IN IF VKind(v) = "I" THEN I64Print(I64Value(st[3])) ELSE st[3]
After(st) == IF st[1] = "set" THEN SetVal(e, st[2], ArgOf(st)) ELSE PushVal(e, st[2], st[3])
StepOK == LET e2 == After(Steps[l])  o == Rec[k].out IN
          /\ o.snaps[l] = e2
          /\ o.texts[l] = Render(e2)
          /\ o.done[l] = TF(Completed(e2))
          /\ o.pb[l] = AccBase(e2) /\ o.pv[l] = AccVer(e2)        \* accessors derived from PKGNAME (C18)
          /\ o.desc[l] = DescStr(e2)

TraceCall == /\ IsHist /\ l <= Len(Steps) /\ StepOK
             /\ e' = After(Steps[l]) /\ l' = l + 1 /\ UNCHANGED k
EndOK == /\ Rec[k].out.stable = "T"
         /\ Len(Rec[k].out.snaps) = Len(Steps)
         /\ ParseOK(Render(e), Rec[k].out.reparse)
         /\ Completed(e) => "ok" \in DOMAIN Rec[k].out.reparse     \* complete entries round-trip

Step == TraceCall
Terminal == IF Rec[k].op = "sumhist" THEN IsHist /\ l = Len(Steps) + 1 /\ EndOK
            ELSE Rec[k].op = "sumparse" /\ ParseOK(Rec[k].in.text, Rec[k].out)
\* rejected: no specified step explains the next logged call, or the end conditions fail
Reject == /\ l # Done /\ ~ENABLED Step /\ ~Terminal
          /\ PrintT(<<"MISMATCH", k, "base">>)
          /\ l' = Done /\ UNCHANGED <<k, e>>
Next == Step \/ Reject
=============================================================================
