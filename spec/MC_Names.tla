------------------------------ MODULE MC_Names ------------------------------
(***************************************************************************)
(* C18 and C19 on the specification, and the cases for spec -> impl.       *)
(* Mode "pkgname": every concatenation of <= MaxPieces tokens over         *)
(*   a n b nb 1 2 - .   (so that a-nb1nb2 and nb-a-1nb2 are inside)        *)
(* Mode "pkgpath": every path of <= MaxPieces segments over .. . a b ""    *)
(*   with and without a leading '/'                                        *)
(* Mode "pkgpath-deep": 5 pieces (../ ./ a/ .. a), deeper - so that, e.g.,    *)
(*   ../../../../a/a is inside the quick bound                             *)
(* Mode "depend": every x:y:... of <= MaxPieces parts over valid/invalid   *)
(*   patterns and paths                                                    *)
(***************************************************************************)
EXTENDS PkgName, PkgPath, TLC, Json

CONSTANTS MaxPieces, Mode

PiecesOf(m) ==
    CASE m = "pkgname" -> { <<97>>, <<110>>, <<98>>, <<110, 98>>, <<49>>, <<50>>, <<DASH>>, <<DOT>> }
      [] m = "pkgpath" -> { <<DOT, DOT, SLASH>>, <<DOT, SLASH>>, <<97, SLASH>>, <<98, SLASH>>, <<SLASH>>,
                            <<DOT, DOT>>, <<DOT>>, <<97>>, <<98>> }
      [] m = "pkgpath-deep" -> { <<DOT, DOT, SLASH>>, <<DOT, SLASH>>, <<97, SLASH>>, <<DOT, DOT>>, <<97>> }   \* fewer pieces, deeper
      [] m = "depend"  -> { <<97, GT, 49>>, <<97, GT, 49, GT, 50>>, <<97, DASH, LBRK, 48, DASH, 57, RBRK, STAR>>,
                            <<LBRACE, 97, COMMA, 98, RBRACE>>, <<LBRACE, 97>>, <<97, SLASH, 98>>,
                            <<DOT, DOT, SLASH, DOT, DOT, SLASH, 97, SLASH, 98>>, <<97>>, <<COLON>> }
Pieces == PiecesOf(Mode)

VARIABLES s, n
Init == s = <<>> /\ n = 0
Next == n < MaxPieces /\ n' = n + 1 /\ \E x \in Pieces : s' = s \o x

\* ---- C18 ----
Lossless == Mode = "pkgname" => Rebuild(Split(s), s) = s
RevIsTok == Mode = "pkgname" =>
              LET v == PkgVer(s) IN
              /\ EndsNbDigits(v) => Tok(v).rev = TrailNumber(v)       \* the revision the comparison uses
              /\ ~HasNbAnyCase(v) => Tok(v).rev = <<>>
\* the matcher splits the name where PkgName does: a name matches the pattern built from its own split
SplitAgrees == (Mode = "pkgname" /\ HasDash(s) /\ ~HasAnyOf(PkgVer(s), {LT, GT, LBRACE, RBRACE})) =>
                 LET d == DeweyNew(PkgBase(s) \o <<GT, EQ>> \o PkgVer(s))
                 IN d.ok /\ DeweyMatches(d, s) /\ d.base = PkgBase(s)
AccessorsAgree == (Mode = "pkgname" /\ HasDash(s) /\ NameBase(s) # <<>> /\ NameVer(s) # <<>>) =>
                    SumBase(s) = <<Split(s).base>> /\ SumVer(s) = <<Split(s).ver>>

\* ---- C19 ----
AcceptIsRef == Mode \in {"pkgpath", "pkgpath-deep"} => (PkgPathNew(s).ok = "T") = AcceptRef(s)
Spellings   == Mode \in {"pkgpath", "pkgpath-deep"} =>
                 LET a == PkgPathNew(s) IN
                 a.ok = "T" =>
                   /\ PkgPathNew(JoinSlash(a.short)) = [ok |-> "T", short |-> a.short, full |-> a.full]  \* re-parse fixpoint
                   /\ PkgPathNew(JoinSlash(a.full))  = [ok |-> "T", short |-> a.short, full |-> a.full]
                   /\ Kinds(a.short) = <<"Normal", "Normal">>
                   /\ a.full = <<<<"ParentDir", DotDotSeg>>, <<"ParentDir", DotDotSeg>>>> \o a.short

Case ==
    CASE Mode = "pkgname" ->
           LET v == PkgVer(s) IN
           IF RevJudged(v)
           THEN [op |-> "pkgname", each |-> 1, in |-> [s |-> s],
                 out |-> [base |-> PkgBase(s), ver |-> v, rev |-> RevExpected(v), sb |-> SumBase(s), sv |-> SumVer(s)]]
           ELSE [op |-> "pkgname", each |-> 1, in |-> [s |-> s],
                 out |-> [base |-> PkgBase(s), ver |-> v, sb |-> SumBase(s), sv |-> SumVer(s)]]
      [] Mode \in {"pkgpath", "pkgpath-deep"} -> [op |-> "pkgpath", in |-> [s |-> s], out |-> PkgPathNew(s)]
      [] Mode = "depend"  -> [op |-> "depend", in |-> [s |-> s], out |-> DependNew(s)]
Emit == (Mode = "depend" => DependJudged(s)) => PrintT(<<"CASE", ToJson(Case)>>)
=============================================================================
