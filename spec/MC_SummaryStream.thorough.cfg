CONSTANTS MaxEntries = 5
  Fixed = TRUE
  EmitHist = FALSE
  ValidEntry <- McValid
SPECIFICATION Spec
VIEW View
INVARIANTS StepAllowed PrefixOK FinalInv Drained
CHECK_DEADLOCK FALSE
