CONSTANTS MaxEntries = 4
  Fixed = TRUE
  EmitHist = FALSE
  ValidEntry <- McValid
SPECIFICATION Spec
VIEW View
INVARIANTS StepAllowed PrefixOK FinalInv Drained
CHECK_DEADLOCK FALSE
