------------------------------- MODULE Values -------------------------------
(***************************************************************************)
(* Extension (not one of the twenty properties): the library's values as   *)
(* values.  PkgName, PkgPath, Pattern and Depend derive Eq and Hash (the    *)
(* first two also Ord); what two texts a and b give is specified here:     *)
(*  - a PkgName is its text: equal iff the texts are equal, ordered as the  *)
(*    texts' UTF-8 bytes (the first field of the derived order);            *)
(*  - a PkgPath is its category/package pair: both spellings of one path   *)
(*    are equal, the order is that of the pair (category first);            *)
(*  - a Pattern is its text; a Depend is its pattern and its PkgPath;       *)
(*  - equal values hash equally, a clone equals and hashes like its         *)
(*    original, equality is symmetric, cmp(a, b) = -cmp(b, a), and          *)
(*    cmp = 0 exactly for equal values.                                     *)
(***************************************************************************)
EXTENDS PkgPath

TFv(b) == IF b THEN "T" ELSE "F"
TextCmp(a, b) == LexCmp(Encode(a), Encode(b))

PkgNameEq(a, b)  == a = b
PkgNameCmp(a, b) == TextCmp(a, b)

\* short is <<<<"Normal", category>>, <<"Normal", package>>>>
PathEq(a, b)  == PkgPathNew(a).short = PkgPathNew(b).short
PathCmp(a, b) == LET x == PkgPathNew(a).short  y == PkgPathNew(b).short
                     c == TextCmp(x[1][2], y[1][2])
                 IN IF c # 0 THEN c ELSE TextCmp(x[2][2], y[2][2])

PatternEq(a, b) == a = b

DependEq(a, b) == LET pa == SplitOn(a, COLON)  pb == SplitOn(b, COLON)
                  IN pa[1] = pb[1] /\ PathEq(pa[2], pb[2])

\* the expected observation; "ok" sides come from the constructors' own specifications
Expected(what, a, b) ==
    LET oka == CASE what = "pkgname" -> TRUE [] what = "pkgpath" -> PkgPathNew(a).ok = "T"
                 [] what = "pattern" -> CompileOk(a) [] OTHER -> DependNew(a).ok = "T"
        okb == CASE what = "pkgname" -> TRUE [] what = "pkgpath" -> PkgPathNew(b).ok = "T"
                 [] what = "pattern" -> CompileOk(b) [] OTHER -> DependNew(b).ok = "T"
    IN IF ~(oka /\ okb) THEN [oka |-> TFv(oka), okb |-> TFv(okb)]
       ELSE LET eq == CASE what = "pkgname" -> PkgNameEq(a, b) [] what = "pkgpath" -> PathEq(a, b)
                        [] what = "pattern" -> PatternEq(a, b) [] OTHER -> DependEq(a, b)
                base == [oka |-> "T", okb |-> "T", eq |-> TFv(eq), qe |-> TFv(eq), clone_eq |-> "T", clone_hash |-> "T"]
            IN IF what \in {"pkgname", "pkgpath"}
               THEN LET c == IF what = "pkgname" THEN PkgNameCmp(a, b) ELSE PathCmp(a, b)
                    IN [oka |-> "T", okb |-> "T", eq |-> TFv(eq), qe |-> TFv(eq), clone_eq |-> "T", clone_hash |-> "T",
                        cmp |-> c, pmc |-> 0 - c]
               ELSE base
=============================================================================
