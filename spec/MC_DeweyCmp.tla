---------------------------- MODULE MC_DeweyCmp ----------------------------
(***************************************************************************)
(* The comparison loop of dewey_cmp as a state machine, one action per     *)
(* branch of the code, checked against the declarative comparison CmpTok   *)
(* (zero-padded lexicographic order, revision last) for every pair of      *)
(* tokenised versions in a bounded domain and all four operators.  Also    *)
(* the order laws of C03 on the declarative comparison.                    *)
(***************************************************************************)
EXTENDS Dewey, TLC

CONSTANTS MaxLen       \* components per version

Comps == {Mod(-3), Mod(-1), Zero, Num(<<49>>), Num(<<50>>)}
Revs  == {<<>>, <<49>>, <<50>>}
Vecs  == UNION {[1..n -> Comps] : n \in 0..MaxLen}
Versions == {[ver |-> v, rev |-> rv] : v \in Vecs, rv \in Revs}

VARIABLES l, r, op, i, phase, res
vars == <<l, r, op, i, phase, res>>

None == [ver |-> <<>>, rev |-> <<>>]

Init == /\ l \in Versions
        /\ r = None /\ op = "GT" /\ i = 0 /\ phase = "pick" /\ res = FALSE

Pick == /\ phase = "pick"
        /\ r' \in Versions /\ op' \in Ops
        /\ i' = 1 /\ phase' = "common"
        /\ UNCHANGED <<l, res>>

MinLen == MinOf(Len(l.ver), Len(r.ver))

CommonDiffer == /\ phase = "common" /\ i <= MinLen /\ l.ver[i] # r.ver[i]
                /\ res' = TestComp(l.ver[i], op, r.ver[i]) /\ phase' = "done"
                /\ UNCHANGED <<l, r, op, i>>
CommonSame   == /\ phase = "common" /\ i <= MinLen /\ l.ver[i] = r.ver[i]
                /\ i' = i + 1 /\ UNCHANGED <<l, r, op, phase, res>>
CommonEnd    == /\ phase = "common" /\ i > MinLen
                /\ phase' = IF Len(l.ver) < Len(r.ver) THEN "padL"
                            ELSE IF Len(l.ver) > Len(r.ver) THEN "padR" ELSE "rev"
                /\ UNCHANGED <<l, r, op, i, res>>
PadLeftHit   == /\ phase = "padL" /\ i <= Len(r.ver) /\ r.ver[i] # Zero
                /\ res' = TestComp(Zero, op, r.ver[i]) /\ phase' = "done"
                /\ UNCHANGED <<l, r, op, i>>
PadLeftSkip  == /\ phase = "padL" /\ i <= Len(r.ver) /\ r.ver[i] = Zero
                /\ i' = i + 1 /\ UNCHANGED <<l, r, op, phase, res>>
PadLeftEnd   == /\ phase = "padL" /\ i > Len(r.ver)
                /\ phase' = "rev" /\ UNCHANGED <<l, r, op, i, res>>
PadRightHit  == /\ phase = "padR" /\ i <= Len(l.ver) /\ l.ver[i] # Zero
                /\ res' = TestComp(l.ver[i], op, Zero) /\ phase' = "done"
                /\ UNCHANGED <<l, r, op, i>>
PadRightSkip == /\ phase = "padR" /\ i <= Len(l.ver) /\ l.ver[i] = Zero
                /\ i' = i + 1 /\ UNCHANGED <<l, r, op, phase, res>>
PadRightEnd  == /\ phase = "padR" /\ i > Len(l.ver)
                /\ phase' = "rev" /\ UNCHANGED <<l, r, op, i, res>>
Revision     == /\ phase = "rev"
                /\ res' = RevTest(l, op, r) /\ phase' = "done"
                /\ UNCHANGED <<l, r, op, i>>

Next == \/ Pick \/ CommonDiffer \/ CommonSame \/ CommonEnd
        \/ PadLeftHit \/ PadLeftSkip \/ PadLeftEnd
        \/ PadRightHit \/ PadRightSkip \/ PadRightEnd \/ Revision

Spec == Init /\ [][Next]_vars /\ WF_vars(Next)

\* the machine computes the declarative verdict (C01)
MachineIsRef == phase = "done" => res = OpHolds(op, CmpTok(l, r))
\* ... and equals the functional transcription used by the trace specs
MachineIsAlg == phase = "done" => res = DeweyCmpAlg(l, op, r)
\* variant: the machine always terminates (C17)
Variant == (Len(l.ver) + Len(r.ver) + 3) - i
Progress == [][phase # "pick" /\ phase' = phase => i' > i]_vars
Terminates == <>(phase = "done")

\* C03 on the declarative order, for every pair reached
Sgn(a, b) == CmpTok(a, b)
PairLaws == phase = "common" =>
    /\ Sgn(l, r) = -Sgn(r, l)                                    \* side independence
    /\ Sgn(l, l) = 0                                             \* reflexivity
    /\ OpHolds("LE", Sgn(l, r)) = ~OpHolds("GT", Sgn(l, r))      \* duality
    /\ OpHolds("GE", Sgn(l, r)) = ~OpHolds("LT", Sgn(l, r))
    /\ Cardinality({o \in {"LT", "GT"} : OpHolds(o, Sgn(l, r))})
         + (IF OpHolds("LE", Sgn(l, r)) /\ OpHolds("GE", Sgn(l, r)) THEN 1 ELSE 0) = 1
=============================================================================
