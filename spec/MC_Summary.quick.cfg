CONSTANTS Depth = 3
  FullTable = FALSE
  EmitHist = FALSE
SPECIFICATION Spec
VIEW View
INVARIANTS TypeOK RoundTrip Reprint OneLinePerValue CausesOK
CHECK_DEADLOCK FALSE
