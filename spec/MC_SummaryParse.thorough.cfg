CONSTANT MaxFaults = 2
INIT Init
NEXT Next
INVARIANTS CausesOK AcceptedOK BaseRoundTrip Emit
CHECK_DEADLOCK FALSE
