CONSTANT MaxLines = 4
SPECIFICATION Spec
INVARIANTS LoopIsRef ErrorFails OnePerName NoLeak Emit
CHECK_DEADLOCK FALSE
