CONSTANTS MaxItems = 5
  Mode = "views"
  FixedCond = TRUE
  EmitMax = 4
INIT Init
NEXT Next
INVARIANTS ScanIsRef NewlineIrrelevant OnePerLine RenderParse ViewsAreRef SameFiles Emit
CHECK_DEADLOCK FALSE
