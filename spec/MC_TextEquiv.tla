---------------------------- MODULE MC_TextEquiv ----------------------------
(***************************************************************************)
(* The non-recursive (SelectSeq / FoldLeft) formulations of Text.tla and   *)
(* Dewey.tla equal the recursive reference formulations: checked for every *)
(* sequence of length <= MaxLen over an alphabet that contains a           *)
(* representative of every class the operators distinguish (digit, zero,   *)
(* blank, newline, CR, dash, letter, dot, UTF-8 lead and continuation      *)
(* bytes of every length, an ill-formed byte).                             *)
(***************************************************************************)
EXTENDS Dewey, TLC

CONSTANTS MaxLen
Alphabet == {48, 49, 32, 10, 13, 45, 46, 97, 110, 98, 195, 169, 226, 130, 240, 244, 143, 255}
Seps == {<<45>>, <<10, 10>>, <<49, 48>>, <<>>, <<195, 169>>}
Sets == {{32}, {32, 10, 13}, {48}, {}}

VARIABLE s
Init == s = <<>>
Next == Len(s) < MaxLen /\ \E c \in Alphabet : s' = Append(s, c)

TextEquiv ==
    /\ \A c \in {45, 10, 48} : SplitOn(s, c) = SplitOnRef(s, c)
    /\ \A S \in Sets : /\ Fields(s, S) = FieldsRef(s, S)
                       /\ TrimLeft(s, S) = TrimLeftRef(s, S)
                       /\ TrimRight(s, S) = TrimRightRef(s, S)
                       /\ Trim(s, S) = TrimRightRef(TrimLeftRef(s, S), S)
    /\ \A p \in Seps : /\ \A from \in 1..(Len(s) + 1) : FindFrom(s, p, from) = FindFromRef(s, p, from)
                       /\ \A from \in 0..Len(s) : RFindFrom(s, p, from) = RFindFromRef(s, p, from)
    /\ \A p \in Seps \ {<<>>} : Occurrences(s, p) = OccurrencesRef(s, p)
    /\ StripZeros(s) = StripZerosRef(s)
    /\ \A k \in 0..Len(s) : LexCmp(SubSeq(s, 1, k), SubSeq(s, k + 1, Len(s))) = LexCmpRef(SubSeq(s, 1, k), SubSeq(s, k + 1, Len(s)))
    /\ LexCmp(s, s) = 0
    /\ Utf8Scan(s, 1) = Utf8ScanRef(s, 1)
    /\ (Utf8Scan(s, 1)[2] = "ok" => Utf8Decode(s, 1) = Utf8DecodeRef(s, 1))
    /\ (\A i \in 1..Len(s) : s[i] < 200) => Encode(s) = EncodeRef(s)
    /\ LET ps == SplitOnRef(s, 45) IN /\ Flatten(ps) = FlattenRef(ps)
                                      /\ JoinTerm(ps, <<10>>) = JoinTermRef(ps, <<10>>)
    /\ (FirstPos(s, 45) = IF Has(s, 45) THEN CHOOSE i \in Positions(s, 45) : \A j \in Positions(s, 45) : i <= j ELSE 0)
    /\ (LastPos(s, 45) = IF Has(s, 45) THEN CHOOSE i \in Positions(s, 45) : \A j \in Positions(s, 45) : i >= j ELSE 0)

DeweyEquiv ==
    /\ \A lb \in {0, 96} : TokFrom(s, 1, <<>>, <<>>, lb) = TokFromRef(s, 1, <<>>, <<>>, lb)
    /\ \A k \in 0..Len(s) :
         LET a == Tok(SubSeq(s, 1, k)).ver  b == Tok(SubSeq(s, k + 1, Len(s))).ver
         IN VecCmpFrom(a, b, 1) = VecCmpFromRef(a, b, 1)
=============================================================================
