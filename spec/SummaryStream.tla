--------------------------- MODULE SummaryStream ---------------------------
(***************************************************************************)
(* Streamed pkg_summary parsing, SummaryStream::write (src/summary.rs) -   *)
(* C09.  Two levels:                                                       *)
(*                                                                         *)
(*  * the PROPERTY as a nondeterministic specification: after the bytes    *)
(*    cum have been written and n entries collected, which outcomes of the *)
(*    next write are allowed (Allowed).  It fixes what C09 fixes and       *)
(*    leaves open what it leaves open (a bad entry may be rejected as soon *)
(*    as one of its bytes has arrived, it must be rejected by the write    *)
(*    that completes it; entries may be released late but never out of     *)
(*    order, and all of them by the end of a well-formed stream).          *)
(*                                                                         *)
(*  * the IMPLEMENTED algorithm as a deterministic machine (ImplWrite):    *)
(*    append; take the longest valid UTF-8 prefix (an incomplete trailing  *)
(*    character is carried over - repair F5 - an invalid byte is an        *)
(*    error); find the last blank-line separator; parse the records before *)
(*    it in order; drain.  Fixed = FALSE is the shipped behaviour (any     *)
(*    UTF-8 error of the whole buffer, even an incomplete tail, fails).    *)
(*                                                                         *)
(* MC_SummaryStream checks that every ImplWrite step is Allowed for every  *)
(* partition of every stream of a bounded domain; Tr_SummaryStream checks  *)
(* that every recorded write of the real code is Allowed.                  *)
(***************************************************************************)
EXTENDS Text

CONSTANT ValidEntry(_)       \* is this (valid UTF-8) record a well-formed entry?

Sep == <<NL, NL>>

\* split at the separator, left to right, non-overlapping: <<complete records, remainder>>
SplitSepW(b, cuts) ==
    <<[k \in 1..Len(cuts) |-> SubSeq(b, IF k = 1 THEN 1 ELSE cuts[k - 1] + 2, cuts[k] - 1)],
      SubSeq(b, IF cuts = <<>> THEN 1 ELSE cuts[Len(cuts)] + 2, Len(b))>>
SplitSepV(b) == Let1(Occurrences(b, Sep), LAMBDA cuts : SplitSepW(b, cuts))
SplitSep(b) == Let1(b, LAMBDA x : SplitSepV(x))
RECURSIVE SplitSepFrom(_, _, _)
SplitSepFrom(b, from, acc) ==
    LET i == FindFrom(b, Sep, from) IN
    IF i = 0 THEN <<acc, SubSeq(b, from, Len(b))>>
    ELSE SplitSepFrom(b, i + 2, Append(acc, SubSeq(b, from, i - 1)))
SplitSepRef(b) == SplitSepFrom(b, 1, <<>>)

WellFormed(rec) == ValidUtf8(rec) /\ ValidEntry(rec)

\* index of the first ill-formed complete record, 0 if none
FirstBad(recs) == LET B == {i \in 1..Len(recs) : ~WellFormed(recs[i])}
                  IN IF B = {} THEN 0 ELSE CHOOSE i \in B : \A j \in B : i <= j
\* offset (number of bytes) at which record i starts
StartOf(recs, i) == FoldL(LAMBDA acc, k : acc + Len(recs[k]) + 2, 0, [k \in 1..(i - 1) |-> k])

(***************************************************************************)
(* The property.  whole = all bytes of the history (known to the trace     *)
(* validator; in the model checker: the stream being delivered).  A write  *)
(* of len bytes after cumlen bytes and n entries is observed as (ret, n2). *)
(***************************************************************************)
\* what the property needs to know about the whole stream (computed once per history);
\* ends[i] = number of bytes up to and including the separator that completes record i.
\* (Left-to-right splitting is prefix-stable, so the records complete within a prefix of the
\* stream are exactly those whose end lies within it.)
InfoV(whole, sp) ==
    LET \* ends as running sums
        es == FoldL(LAMBDA acc, r : Append(acc, (IF acc = <<>> THEN 0 ELSE acc[Len(acc)]) + Len(r) + 2), <<>>, sp[1])
    IN [all |-> sp[1], rest |-> sp[2], bad |-> FirstBad(sp[1]),
        invalid |-> Nth(Utf8Scan(whole, 1), 2) = "invalid",
        ends |-> es]
Info(whole) == Let1(whole, LAMBDA w : Let1(SplitSep(w), LAMBDA sp : InfoV(w, sp)))

\* a write of len bytes after cumlen bytes, observed as (ret, n2)
AllowedI(info, cumlen, n, len, ret, n2) ==
    LET bad   == info.bad
        cum2  == cumlen + len
        done2 == Cardinality({i \in 1..Len(info.ends) : info.ends[i] <= cum2})   \* records complete after this write
        okret == ret = <<"ok", len>>
        fail  == ret = <<"err", "InvalidData">>
    IN IF bad = 0 /\ ~info.invalid
       THEN okret /\ n <= n2 /\ n2 <= done2                  \* well-formed stream: never fails
       ELSE LET b == IF bad = 0 THEN Len(info.all) + 1 ELSE bad   \* the bad entry (possibly the unfinished tail)
                startb == IF b = 1 THEN 0 ELSE info.ends[b - 1]
                arrived == cum2 > startb
                mustfail == bad # 0 /\ done2 >= bad
                \* "exactly the well-formed entries preceding it" is judged for streams that are valid
                \* UTF-8 throughout (the statement is about UTF-8 entries); if any invalid byte occurs
                \* in the stream only "a prefix of them" is required, because validating the whole
                \* buffer before splitting it and validating record by record are both reasonable
                syntactic == bad # 0 /\ ~info.invalid
            IN \/ (okret /\ ~mustfail /\ n <= n2 /\ n2 <= MinOf(done2, b - 1))
               \/ (fail /\ arrived /\ n <= n2 /\ n2 <= b - 1 /\ (syntactic => n2 = b - 1))
Allowed(whole, cumlen, n, len, ret, n2) == AllowedI(Info(whole), cumlen, n, len, ret, n2)

\* after the last write of a history that did not fail: everything was released
FinalOK(whole, n, failed) ==
    LET sp == SplitSep(whole) IN
    (~failed /\ FirstBad(sp[1]) = 0 /\ sp[2] = <<>>) => n = Len(sp[1])

(***************************************************************************)
(* The implemented algorithm.  State: buf (undrained bytes), ents (records *)
(* accepted so far).  Result: [buf, ents, ret].                            *)
(***************************************************************************)
GoodPrefixLen(recs) == LET b == FirstBad(recs) IN IF b = 0 THEN Len(recs) ELSE b - 1

ImplWrite(buf, ents, chunk, Fixed) ==
    LET b2 == buf \o chunk
        sc == Utf8Scan(b2, 1)
        Fail(es) == [buf |-> b2, ents |-> es, ret |-> <<"err", "InvalidData">>]
    IN IF sc[2] = "invalid" \/ (~Fixed /\ sc[2] = "incomplete") THEN Fail(ents)
       ELSE LET usable == SubSeq(b2, 1, sc[1])
                last   == RFind(usable, Sep)
            IN IF last = 0 THEN [buf |-> b2, ents |-> ents, ret |-> <<"ok", Len(chunk)>>]
               ELSE LET recs == Nth(SplitSep(SubSeq(usable, 1, last + 1)), 1)
                        g    == GoodPrefixLen(recs)
                    IN IF g < Len(recs) THEN Fail(ents \o SubSeq(recs, 1, g))
                       ELSE [buf |-> Drop(b2, last + 1), ents |-> ents \o recs, ret |-> <<"ok", Len(chunk)>>]
=============================================================================
