---------------------------- MODULE Tr_BestMatch ----------------------------
(***************************************************************************)
(* Trace validation of recorded pairwise reductions (C06).  Each record is *)
(* one history: {p, pool, steps} -> {ok, hist}; it is replayed through the *)
(* specification's own Reduce action, the logged pool after every step     *)
(* must be the pool the action produces, and the final survivor must be    *)
(* the winner the property names.  Every history is run twice, under the   *)
(* property (lb = 0) and under the named deviation KF1 (lb = 96).  When no *)
(* action can produce the next logged state the history takes the Reject   *)
(* step, which prints <<"MISMATCH", k, "lb0" | "lb96">>; the driver calls  *)
(* a history a violation if it is rejected under both, a known finding if  *)
(* only the deviation accepts it.                                          *)
(***************************************************************************)
EXTENDS BestMatch, TLC, Json, IOUtils

Rec == ndJsonDeserialize(IOEnv.TRACE)

VARIABLES k, l
vars == <<pat, cands, pool, lb, k, l>>

Usable(r) == /\ r.op = "reduce" /\ "hist" \in DOMAIN r.out /\ Judged(r.in.p) /\ CompileOk(r.in.p)
             /\ ~LongRun(r.in.p) /\ \A i \in 1..Len(r.in.pool) : ~LongRun(r.in.pool[i])     \* C01's domain
Steps == Rec[k].in.steps
Tag == IF lb = 0 THEN "lb0" ELSE "lb96"

Init == /\ k \in {i \in 1..Len(Rec) : Usable(Rec[i])}
        /\ lb \in {0, 96}
        /\ l = 1
        /\ pat = Rec[k].in.p
        /\ cands = Rec[k].in.pool
        /\ pool = [i \in 1..Len(Rec[k].in.pool) |-> <<Rec[k].in.pool[i]>>]

TraceReduce == /\ l <= Len(Steps)
               /\ Reduce(Steps[l][1], Steps[l][2])
               /\ pool' = Rec[k].out.hist[l]            \* the logged state is the specified state
               /\ l' = l + 1 /\ UNCHANGED k
FinalBad == Len(pool) = 1 /\ Len(cands) > 1 /\ WinnerUnique /\ pool[1] # Winner
Done == 9999
Terminal == l = Len(Steps) + 1 /\ ~FinalBad
\* rejected: Reduce cannot produce the next logged pool, or the survivor is not the winner
Reject == /\ l # Done /\ ~ENABLED TraceReduce /\ ~Terminal
          /\ PrintT(<<"MISMATCH", k, Tag>>)
          /\ l' = Done /\ UNCHANGED <<pat, cands, pool, lb, k>>
Next == TraceReduce \/ Reject

\* records that are not replayed must at least have returned normally
Shapes == \A i \in 1..Len(Rec) : "ok" \in DOMAIN Rec[i].out
ASSUME Shapes \/ PrintT(<<"MISMATCH", 0, "shape">>)
=============================================================================
