CONSTANTS MaxPieces = 7
  Mode = "pkgpath-deep"
INIT Init
NEXT Next
INVARIANTS Lossless RevIsTok SplitAgrees AccessorsAgree AcceptIsRef Spellings Emit
CHECK_DEADLOCK FALSE
