CONSTANTS MaxLen = 9
  EmitHist = TRUE
  Marker <- ShortMarker
SPECIFICATION Spec
INVARIANTS Inv1 Emit
CHECK_DEADLOCK FALSE
