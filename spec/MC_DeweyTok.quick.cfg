CONSTANT MaxTok = 2
SPECIFICATION Spec
INVARIANTS MachineIsTok InRange CaseInsensitive SkipLaw LetterOnly
PROPERTY Progress
CHECK_DEADLOCK FALSE
