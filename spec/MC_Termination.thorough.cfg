CONSTANT MaxPieces = 7
INIT Init
NEXT Next
INVARIANTS BraceVariant ExpansionBound TokVariant GlobVariant
CHECK_DEADLOCK FALSE
