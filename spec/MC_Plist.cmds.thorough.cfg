CONSTANTS MaxItems = 1
  Mode = "cmds"
  FixedCond = TRUE
  EmitMax = 1
INIT Init
NEXT Next
INVARIANTS ScanIsRef NewlineIrrelevant OnePerLine RenderParse ViewsAreRef SameFiles Emit
CHECK_DEADLOCK FALSE
