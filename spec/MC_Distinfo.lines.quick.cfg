CONSTANTS MaxItems = 3
  Mode = "lines"
  Marker <- RealMarker
INIT Init
NEXT Next
INVARIANTS WriteParse ParseWrite ClassOK PatchRule FoldIsRef NoOps Emit
CHECK_DEADLOCK FALSE
