CONSTANTS MaxPieces = 4
  Mode = "glob"
INIT Init
NEXT Next
INVARIANTS AlgIsCsh AlgIsRef CompileRule PlainIdentical DeweyIsGrammar DeweyAgrees TwoBound BestSelf Emit
CHECK_DEADLOCK FALSE
