---------------------------- MODULE DigestReader ----------------------------
(***************************************************************************)
(* The read loop of hash_file / hash_patch (src/digest.rs) as a state      *)
(* machine over read schedules - C13.                                      *)
(***************************************************************************)
EXTENDS Digest

(***************************************************************************)
(* The read loop as a state machine.  The reader delivers the input in     *)
(* pieces of any size, may report Interrupted (retried, invisible), or a   *)
(* hard error (the whole call fails).  In patch mode complete lines are    *)
(* taken out of a pending buffer as they become available.                 *)
(***************************************************************************)
VARIABLES mode, input, pos, pending, absorbed, status
dgvars == <<mode, input, pos, pending, absorbed, status>>

\* feed complete lines of buf to the hasher; <<absorbed', pending'>>
RECURSIVE DrainLines(_, _)
DrainLines(buf, acc) ==
    LET i == FirstPos(buf, NL) IN
    IF i = 0 THEN <<acc, buf>>
    ELSE LET line == SubSeq(buf, 1, i - 1)
         IN DrainLines(Drop(buf, i), IF HasSub(line, Marker) THEN acc ELSE acc \o line \o <<NL>>)

Read(k) == /\ status = "reading" /\ k >= 1 /\ pos + k <= Len(input)
           /\ LET piece == SubSeq(input, pos + 1, pos + k) IN
              IF mode = "plain" THEN absorbed' = absorbed \o piece /\ pending' = pending
              ELSE LET d == DrainLines(pending \o piece, absorbed) IN absorbed' = d[1] /\ pending' = d[2]
           /\ pos' = pos + k /\ UNCHANGED <<mode, input, status>>
Interrupted == status = "reading" /\ UNCHANGED dgvars
HardError == status = "reading" /\ status' = "error" /\ UNCHANGED <<mode, input, pos, pending, absorbed>>
Eof == /\ status = "reading" /\ pos = Len(input)
       /\ absorbed' = IF mode = "patch" /\ pending # <<>>
                      THEN (IF HasSub(pending, Marker) THEN absorbed ELSE absorbed \o pending \o <<NL>>)
                      ELSE absorbed
       /\ pending' = <<>> /\ status' = "done" /\ UNCHANGED <<mode, input, pos>>

\* C13: for every schedule the absorbed bytes are the reference, independent of the schedule
ResultOK == status = "done" => absorbed = Absorbed(mode, input)
\* bytes are never hashed past what was delivered, in order
PrefixInv == mode = "plain" => absorbed = SubSeq(input, 1, pos)
=============================================================================
