CONSTANTS MaxPool = 6
  EmitHist = TRUE
SPECIFICATION Spec
INVARIANTS Final Unique PoolInv Emit
CHECK_DEADLOCK FALSE
