----------------------------- MODULE Tr_Distinfo -----------------------------
(***************************************************************************)
(* Implementation -> specification for C10, C11, C12.                      *)
(*  distparse {bytes} -> {d, out}: parsed value and as_bytes               *)
(*  distbuild {rcsid, entries} -> {built, out, back}: API-assembled value,  *)
(*            written and parsed back                                      *)
(*  verify {path, content, lines} -> lookup and verification outcomes      *)
(*            against a real file; recorded hashes are the oracle's digest *)
(*            of the bytes the harness CLAIMS are absorbed - the claim is  *)
(*            validated here against Digest!PatchFilter.                   *)
(***************************************************************************)
EXTENDS Distinfo, TLC, Json, IOUtils

Rec == ndJsonDeserialize(IOEnv.TRACE)
TF(b) == IF b THEN "T" ELSE "F"
Shape(o, keys) == keys \subseteq DOMAIN o
DIJson(x) == [rcsid |-> x.rcsid, dist |-> x.dist, patch |-> x.patch]

ParseVerdict(r) ==
    IF ~Shape(r.out, {"d", "out"}) \/ "inconsistent" \in DOMAIN r.out THEN "bad"
    ELSE IF ~Judged(r.in.bytes) THEN "ok"
    ELSE LET d == FromBytes(r.in.bytes) IN
         IF r.out.d = DIJson(d) /\ r.out.out = AsBytes(d)
            \* a lookup finds an entry exactly under the name it is recorded under, in its own table
            /\ ("probes" \in DOMAIN r.in =>
                  /\ "hits" \in DOMAIN r.out
                  /\ r.out.hits = [i \in 1..Len(r.in.probes) |-> <<TF(IndexOf(d.dist, r.in.probes[i]) # 0),
                                                                   TF(IndexOf(d.patch, r.in.probes[i]) # 0)>>])
            \* canonical text is reproduced byte for byte
            /\ (AsBytes(d) = r.in.bytes => r.out.out = r.in.bytes)
         THEN "ok" ELSE "bad"

\* the value the API calls assemble: Entry::new + insert in order, keyed by name, by file type; a
\* later insert of a name that is already present replaces that entry in place (and returns false)
Built(in) ==
    LET RECURSIVE Ins(_, _)
        Ins(i, d) == IF i > Len(in.entries) THEN d
                     ELSE LET e == in.entries[i]
                              ent == [name |-> e.name, size |-> IF e.size = <<>> THEN <<>> ELSE <<StripZeros(e.size[1])>>, sums |-> e.sums]
                              Put(es) == LET j == IndexOf(es, e.name) IN IF j = 0 THEN Append(es, ent) ELSE [es EXCEPT ![j] = ent]
                          IN Ins(i + 1, IF IsPatch(e.name) THEN [d EXCEPT !.patch = Put(@)] ELSE [d EXCEPT !.dist = Put(@)])
    IN Ins(1, [rcsid |-> in.rcsid, dist |-> <<>>, patch |-> <<>>])
InsertedFlags(in) == [i \in 1..Len(in.entries) |->
                        IF \E j \in 1..(i - 1) : in.entries[j].name = in.entries[i].name THEN "F" ELSE "T"]
\* what survives the file format: patches carry no size
Expressible(d) == [d EXCEPT !.patch = [i \in 1..Len(d.patch) |-> [d.patch[i] EXCEPT !.size = <<>>]]]
BuildVerdict(r) ==
    IF ~Shape(r.out, {"built", "out", "back", "inserted"}) THEN "bad"
    ELSE IF \E i \in 1..Len(r.in.entries) : ~PatchJudged(r.in.entries[i].name) THEN "ok"
    ELSE LET d == Built(r.in) IN
         IF /\ r.out.built = DIJson(d)
            /\ r.out.inserted = InsertedFlags(r.in)
            /\ r.out.out = AsBytes(d)
            /\ r.out.back = DIJson(Expressible(d))         \* same RCS Id, files, order, checksums, size
            /\ FromBytes(AsBytes(d)) = Expressible(d)
         THEN "ok" ELSE "bad"

\* ---- verify ----
RebuildDI(r) ==
    LET ls == r.in.lines
        RECURSIVE Go(_, _, _)
        Go(i, j, d) == IF i > Len(ls) THEN d
                       ELSE IF ls[i].kind = "size" THEN Go(i + 1, j, SizeLine(d, ls[i].name, StripZeros(ls[i].n)))
                       ELSE Go(i + 1, j + 1, SumLine(d, ls[i].alg, ls[i].name, r.out.recorded[j].hash))
    IN Go(1, 1, EmptyDI)
VerifyVerdict(r) ==
    IF ~Shape(r.out, {"claim_patch", "recorded", "parsed", "found", "size", "sums", "all", "entry_same", "calc_ok",
                      "last_is_patch", "len", "actual_plain", "actual_patch"}) THEN "bad"
    ELSE IF ~PatchJudged(r.in.path[Len(r.in.path)]) \/ \E i \in 1..Len(r.in.lines) : ~PatchJudged(r.in.lines[i].name) THEN "ok"
    ELSE LET o == r.out
             d == RebuildDI(r)
             cs == r.in.path
             es == MapFor(d, cs)
             i == FindRef(d, cs)
             e == es[i]
             flen == StripZeros(o.len)
             Actual(a) == IF ModeOf(e) = "patch" THEN o.actual_patch[a] ELSE o.actual_plain[a]
             SumOutcome(a) == LET s == FirstSum(e, a) IN
                              IF s = 0 THEN <<"MissingChecksum", a>>
                              ELSE IF e.sums[s][2] = Actual(a) THEN <<"Ok", a>>
                              ELSE <<"Checksum", e.name, a, e.sums[s][2], Actual(a)>>
             \* after the file was rewritten in place (same length and modification time, byte k changed)
             k == IF "rewrite" \in DOMAIN r.in THEN r.in.rewrite ELSE 0
             c2 == [r.in.content EXCEPT ![k] = (@ + 1) % 256]
             Actual2(a) == IF ModeOf(e) = "patch" THEN o.again.actual_patch[a] ELSE o.again.actual_plain[a]
             SumOutcome2(a) == LET s == FirstSum(e, a) IN
                               IF s = 0 THEN <<"MissingChecksum", a>>
                               ELSE IF e.sums[s][2] = Actual2(a) THEN <<"Ok", a>>
                               ELSE <<"Checksum", e.name, a, e.sums[s][2], Actual2(a)>>
             AgainOK == (k >= 1 /\ k <= Len(r.in.content)) =>
                          /\ "again" \in DOMAIN o /\ DOMAIN o.again = {"claim_patch", "sums", "actual_plain", "actual_patch"}
                          /\ o.again.claim_patch = PatchFilter(c2)
                          /\ IF i = 0 THEN \A a \in Algs : o.again.sums[a] = <<"NotFound">>
                             ELSE \A a \in Algs : o.again.sums[a] = SumOutcome2(a)
             SizeOutcome == LET v == VerifySize(e, flen) IN
                            IF v[1] = "Ok" THEN <<"Ok", U64Print(e.size[1])>>
                            ELSE IF v[1] = "Size" THEN <<"Size", e.name, U64Print(v[2]), U64Print(v[3])>>
                            ELSE v
         IN IF /\ o.claim_patch = PatchFilter(r.in.content)          \* the oracle hashed the specified bytes
               /\ o.parsed = DIJson(d)
               /\ FindEntry(d, cs) = i                               \* machine = shortest recorded trailing sub-path
               /\ o.last_is_patch = TF(IsPatch(cs[Len(cs)]))
               /\ o.calc_ok = "T"
               /\ AgainOK
               /\ IF i = 0
                  THEN /\ o.found = <<"err", <<"NotFound">>>> /\ o.size = <<"NotFound">>
                       /\ \A a \in Algs : o.sums[a] = <<"NotFound">>
                       /\ o.all = <<<<"NotFound">>>>
                  ELSE /\ o.found = <<"found", e.name>>
                       /\ o.size = SizeOutcome
                       /\ \A a \in Algs : o.sums[a] = SumOutcome(a)
                       /\ o.all = [s \in 1..Len(e.sums) |-> SumOutcome(e.sums[s][1])]
                       /\ o.entry_same = "T"
            THEN "ok" ELSE "bad"

Verdict(r) == CASE r.op = "distparse" -> ParseVerdict(r)
                [] r.op = "distbuild" -> BuildVerdict(r)
                [] r.op = "verify" -> VerifyVerdict(r)
                [] OTHER -> "bad"

VARIABLES k, blk
NB == 48
Init == blk \in 0..(NB - 1) /\ k = 0 /\ Len(Rec) >= 0    \* forces the one-time load of the trace
Next == k = 0 /\ k' \in {i \in 1..Len(Rec) : i % NB = blk} /\ UNCHANGED blk
Check == k = 0 \/ LET v == Verdict(Rec[k]) IN v = "ok" \/ PrintT(<<"MISMATCH", k, v>>)
=============================================================================
