------------------------------ MODULE Summary ------------------------------
(***************************************************************************)
(* pkg_summary(5) entries (src/summary.rs): the table of the 23 variables, *)
(* the entry as a state machine (Set / Push), printing, parsing and the    *)
(* causes for which parsing may fail - C07, C08.                           *)
(*                                                                         *)
(* An entry maps each variable (index into VarTable, which is in the fixed *)
(* pkg_summary order) to <<>> (unset) or <<value>>: text for kind "S", the *)
(* canonical decimal text of an i64 for kind "I", a sequence of texts for  *)
(* kind "A" (multi-line variables).                                        *)
(***************************************************************************)
EXTENDS Text

VarTable == <<
    [name |-> <<66, 85, 73, 76, 68, 95, 68, 65, 84, 69>>, kind |-> "S", req |-> TRUE, txt |-> "BUILD_DATE"],
    [name |-> <<67, 65, 84, 69, 71, 79, 82, 73, 69, 83>>, kind |-> "S", req |-> TRUE, txt |-> "CATEGORIES"],
    [name |-> <<67, 79, 77, 77, 69, 78, 84>>, kind |-> "S", req |-> TRUE, txt |-> "COMMENT"],
    [name |-> <<67, 79, 78, 70, 76, 73, 67, 84, 83>>, kind |-> "A", req |-> FALSE, txt |-> "CONFLICTS"],
    [name |-> <<68, 69, 80, 69, 78, 68, 83>>, kind |-> "A", req |-> FALSE, txt |-> "DEPENDS"],
    [name |-> <<68, 69, 83, 67, 82, 73, 80, 84, 73, 79, 78>>, kind |-> "A", req |-> TRUE, txt |-> "DESCRIPTION"],
    [name |-> <<70, 73, 76, 69, 95, 67, 75, 83, 85, 77>>, kind |-> "S", req |-> FALSE, txt |-> "FILE_CKSUM"],
    [name |-> <<70, 73, 76, 69, 95, 78, 65, 77, 69>>, kind |-> "S", req |-> FALSE, txt |-> "FILE_NAME"],
    [name |-> <<70, 73, 76, 69, 95, 83, 73, 90, 69>>, kind |-> "I", req |-> FALSE, txt |-> "FILE_SIZE"],
    [name |-> <<72, 79, 77, 69, 80, 65, 71, 69>>, kind |-> "S", req |-> FALSE, txt |-> "HOMEPAGE"],
    [name |-> <<76, 73, 67, 69, 78, 83, 69>>, kind |-> "S", req |-> FALSE, txt |-> "LICENSE"],
    [name |-> <<77, 65, 67, 72, 73, 78, 69, 95, 65, 82, 67, 72>>, kind |-> "S", req |-> TRUE, txt |-> "MACHINE_ARCH"],
    [name |-> <<79, 80, 83, 89, 83>>, kind |-> "S", req |-> TRUE, txt |-> "OPSYS"],
    [name |-> <<79, 83, 95, 86, 69, 82, 83, 73, 79, 78>>, kind |-> "S", req |-> TRUE, txt |-> "OS_VERSION"],
    [name |-> <<80, 75, 71, 95, 79, 80, 84, 73, 79, 78, 83>>, kind |-> "S", req |-> FALSE, txt |-> "PKG_OPTIONS"],
    [name |-> <<80, 75, 71, 78, 65, 77, 69>>, kind |-> "S", req |-> TRUE, txt |-> "PKGNAME"],
    [name |-> <<80, 75, 71, 80, 65, 84, 72>>, kind |-> "S", req |-> TRUE, txt |-> "PKGPATH"],
    [name |-> <<80, 75, 71, 84, 79, 79, 76, 83, 95, 86, 69, 82, 83, 73, 79, 78>>, kind |-> "S", req |-> TRUE, txt |-> "PKGTOOLS_VERSION"],
    [name |-> <<80, 82, 69, 86, 95, 80, 75, 71, 80, 65, 84, 72>>, kind |-> "S", req |-> FALSE, txt |-> "PREV_PKGPATH"],
    [name |-> <<80, 82, 79, 86, 73, 68, 69, 83>>, kind |-> "A", req |-> FALSE, txt |-> "PROVIDES"],
    [name |-> <<82, 69, 81, 85, 73, 82, 69, 83>>, kind |-> "A", req |-> FALSE, txt |-> "REQUIRES"],
    [name |-> <<83, 73, 90, 69, 95, 80, 75, 71>>, kind |-> "I", req |-> TRUE, txt |-> "SIZE_PKG"],
    [name |-> <<83, 85, 80, 69, 82, 83, 69, 68, 69, 83>>, kind |-> "A", req |-> FALSE, txt |-> "SUPERSEDES"]
>>

NV == Len(VarTable)
Vars == 1..NV
VKind(v) == VarTable[v].kind
Required == {v \in Vars : VarTable[v].req}
VarByName(nm) == LET S == {v \in Vars : VarTable[v].name = nm} IN IF S = {} THEN 0 ELSE CHOOSE v \in S : TRUE
TableOK == /\ \A v, w \in Vars : VarTable[v].name = VarTable[w].name => v = w      \* names are distinct
           /\ \A v \in Vars : VarTable[v].name = Codes(VarTable[v].txt)            \* literals are right
           /\ Cardinality(Required) = 11

Empty == [v \in Vars |-> <<>>]

\* ---- the entry as a state machine -------------------------------------------------
\* set_*: replace;  push_*: append to the list (creating it)
SetVal(e, v, x)  == [e EXCEPT ![v] = <<x>>]
PushVal(e, v, x) == [e EXCEPT ![v] = IF e[v] = <<>> THEN <<<<x>>>> ELSE <<Append(e[v][1], x)>>]

CompletedV(e) == \A v \in Required : e[v] # <<>>

Completed(e) == Let1(e, LAMBDA x : CompletedV(x))
\* ---- printing --------------------------------------------------------------------
LineOf(v, x) == VarTable[v].name \o <<EQ>> \o x \o <<NL>>
RenderVarV(e, v) ==
    IF e[v] = <<>> THEN <<>>
    ELSE IF VKind(v) = "A" THEN Flatten([i \in 1..Len(e[v][1]) |-> LineOf(v, e[v][1][i])])
    ELSE LineOf(v, e[v][1])
RenderVar(e, v) == Let1(e, LAMBDA x : RenderVarV(x, v))
RenderV(e) == Flatten([v \in Vars |-> RenderVar(e, v)])
Render(e) == Let1(e, LAMBDA x : RenderV(x))
\* number of printed lines = number of values
ValueCountV(e) == LET n(v) == IF e[v] = <<>> THEN 0 ELSE IF VKind(v) = "A" THEN Len(e[v][1]) ELSE 1
                     RECURSIVE Sum(_)
                     Sum(v) == IF v = 0 THEN 0 ELSE n(v) + Sum(v - 1)
                 IN Sum(NV)

ValueCount(e) == Let1(e, LAMBDA x : ValueCountV(x))
\* ---- parsing ---------------------------------------------------------------------
\* one line: <<"ok", v, value>> or <<"err", kind, argument>>
ParseLine(line) ==
    LET i == FirstPos(line, EQ) IN
    IF i = 0 THEN <<"err", "ParseLine", line>>
    ELSE LET nm == SubSeq(line, 1, i - 1)
             x  == SubSeq(line, i + 1, Len(line))       \* everything after the first '='
             v  == VarByName(nm)
         IN IF v = 0 THEN <<"err", "ParseVariable", nm>>
            ELSE IF VKind(v) = "I" THEN
                 (IF IsI64Text(x) THEN <<"ok", v, I64Print(I64Value(x))>> ELSE <<"err", "ParseInt", <<>>>>)
            ELSE <<"ok", v, x>>

\* the lines in order, stopping at the first one that is an error (a fold; ParseLinesRef is the
\* same as a recursion, compared in MC_SummaryParse)
ParseLinesV(ls, i0, e0) ==
    LET step(st, i) == IF st[1] = "err" THEN st
                       ELSE LET r == ParseLine(ls[i]) IN
                            IF r[1] = "err" THEN r
                            ELSE <<"ok", IF VKind(r[2]) = "A" THEN PushVal(st[2], r[2], r[3]) ELSE SetVal(st[2], r[2], r[3])>>
    IN FoldL(step, <<"ok", e0>>, SubSeq(Idx(ls), i0, Len(ls)))
ParseLines(ls, i0, e0) == Let1(ls, LAMBDA x : ParseLinesV(x, i0, e0))
RECURSIVE ParseLinesRef(_, _, _)
ParseLinesRef(ls, i, e) ==
    IF i > Len(ls) THEN <<"ok", e>>
    ELSE LET r == ParseLine(ls[i]) IN
         IF r[1] = "err" THEN r
         ELSE ParseLinesRef(ls, i + 1, IF VKind(r[2]) = "A" THEN PushVal(e, r[2], r[3]) ELSE SetVal(e, r[2], r[3]))

MissingFirst(e) == LET M == {v \in Required : e[v] = <<>>} IN CHOOSE v \in M : \A w \in M : v <= w

\* Summary::from_str as implemented: first error in line order, then the first missing variable
ParseV(r) ==
    IF r[1] = "err" THEN r
    ELSE IF ~Completed(r[2]) THEN <<"err", "Incomplete", VarTable[MissingFirst(r[2])].name>>
    ELSE r
Parse(t) == Let1(ParseLines(Lines(t), 1, Empty), ParseV)

\* the property: every cause present in the text; parsing succeeds iff there is none, and a
\* failure must name one of them (which one is not fixed when there are several)
CausesV(rs) ==          \* rs: the outcome of every line
    LET bad == { <<rs[i][2], rs[i][3]>> : i \in {j \in 1..Len(rs) : rs[j][1] = "err"} }
        present == { rs[i][2] : i \in {j \in 1..Len(rs) : rs[j][1] = "ok"} }
    IN bad \cup { <<"Incomplete", VarTable[v].name>> : v \in Required \ present }
Causes(t) == Let1(Lines(t), LAMBDA ls : Let1([i \in 1..Len(ls) |-> ParseLine(ls[i])], CausesV))

\* pkgbase() / pkgversion(): the parts of PKGNAME (variable 16) before / after its last '-';
\* None when PKGNAME is unset, has no '-', or the part is empty
PkgnameOf(e) == e[16]
AccBase(e) == IF PkgnameOf(e) = <<>> THEN <<>>
              ELSE LET nm == PkgnameOf(e)[1]  i == LastPos(nm, DASH) IN
                   IF i <= 1 THEN <<>> ELSE <<SubSeq(nm, 1, i - 1)>>
AccVer(e)  == IF PkgnameOf(e) = <<>> THEN <<>>
              ELSE LET nm == PkgnameOf(e)[1]  i == LastPos(nm, DASH) IN
                   IF i = 0 \/ i = Len(nm) THEN <<>> ELSE <<SubSeq(nm, i + 1, Len(nm))>>
\* description_as_str(): the DESCRIPTION lines (variable 6) joined with newlines
DescStrV(e) == IF e[6] = <<>> THEN <<>>
              ELSE LET ls == e[6][1]
                   IN <<IF ls = <<>> THEN <<>> ELSE Flatten([i \in 1..(2 * Len(ls) - 1) |-> IF i % 2 = 1 THEN ls[(i + 1) \div 2] ELSE <<NL>>])>>

DescStr(e) == Let1(e, LAMBDA x : DescStrV(x))
\* canonical text: what Print produces (for the parse -> print direction of C07)
Canonical(t) == LET r == Parse(t) IN r[1] = "ok" /\ Render(r[2]) = t
=============================================================================
