---------------------------- MODULE ReduceProofs ----------------------------
(***************************************************************************)
(* C06 on the specification, UNBOUNDED (TLAPS): reducing any pool of       *)
(* candidates pairwise with best_match, in any order and from any starting *)
(* candidate, ends with the one best candidate of the pool.                *)
(*                                                                         *)
(* Better(a, b) stands for "a beats b" on matching names: higher version   *)
(* (Dewey!CmpTok order with the revision as last key), ties to the         *)
(* byte-wise smaller name.  OrderProofs proves that the version order is a *)
(* total preorder for vectors of any length; byte-wise comparison of       *)
(* distinct names is a linear order; hence the assumption Linear.  TLC     *)
(* checks the same on BestMatch.tla for pools of 12 names (all 4096        *)
(* subsets, both reduction directions); here the pool is any set.          *)
(***************************************************************************)
EXTENDS TLAPS

CONSTANTS Cand, Better(_, _)
ASSUME Linear ==
    /\ \A a \in Cand : ~Better(a, a)
    /\ \A a, b, c \in Cand : Better(a, b) /\ Better(b, c) => Better(a, c)
    /\ \A a, b \in Cand : a # b => Better(a, b) \/ Better(b, a)

\* Pattern::best_match(a, b) when both match: b only if it is strictly better
Pick(a, b) == IF Better(b, a) THEN b ELSE a

VARIABLES acc, rest
vars == <<acc, rest>>
Init == \E x \in Cand : acc = x /\ rest = Cand \ {x}
Next == \E x \in rest : acc' = Pick(acc, x) /\ rest' = rest \ {x}
Spec == Init /\ [][Next]_vars

IsBest(m, S) == m \in S /\ \A x \in S : ~Better(x, m)

Inv == /\ acc \in Cand
       /\ rest \subseteq Cand
       /\ IsBest(acc, Cand \ rest)

THEOREM PickLaws ==
    \A a, b, c \in Cand :
        /\ Pick(a, b) \in {a, b}
        /\ Pick(a, a) = a
        /\ Pick(a, b) = Pick(b, a)
        /\ Pick(Pick(a, b), c) = Pick(a, Pick(b, c))
<1> SUFFICES ASSUME NEW a \in Cand, NEW b \in Cand, NEW c \in Cand
             PROVE /\ Pick(a, b) \in {a, b}
                   /\ Pick(a, a) = a
                   /\ Pick(a, b) = Pick(b, a)
                   /\ Pick(Pick(a, b), c) = Pick(a, Pick(b, c))
    OBVIOUS
<1>1. Pick(a, b) \in {a, b} BY DEF Pick
<1>2. Pick(a, a) = a BY DEF Pick
<1>3. Pick(a, b) = Pick(b, a)
    <2>1. CASE a = b BY <2>1 DEF Pick
    <2>2. CASE a # b
        <3>1. Better(a, b) \/ Better(b, a) BY <2>2, Linear
        <3>2. ~(Better(a, b) /\ Better(b, a)) BY Linear
        <3> QED BY <3>1, <3>2 DEF Pick
    <2> QED BY <2>1, <2>2
<1>4. Pick(Pick(a, b), c) = Pick(a, Pick(b, c))
    <2>1. ~(Better(a, b) /\ Better(b, a)) /\ ~(Better(a, c) /\ Better(c, a)) /\ ~(Better(b, c) /\ Better(c, b)) BY Linear
    <2>2. (Better(a, b) /\ Better(b, c) => Better(a, c)) /\ (Better(c, b) /\ Better(b, a) => Better(c, a))
          /\ (Better(b, a) /\ Better(a, c) => Better(b, c)) /\ (Better(c, a) /\ Better(a, b) => Better(c, b))
          /\ (Better(a, c) /\ Better(c, b) => Better(a, b)) /\ (Better(b, c) /\ Better(c, a) => Better(b, a))
        BY Linear
    <2>3. (a # b => Better(a, b) \/ Better(b, a)) /\ (a # c => Better(a, c) \/ Better(c, a)) /\ (b # c => Better(b, c) \/ Better(c, b))
        BY Linear
    <2> QED BY <2>1, <2>2, <2>3 DEF Pick
<1> QED BY <1>1, <1>2, <1>3, <1>4

THEOREM BestUnique == \A S \in SUBSET Cand : \A m1, m2 \in Cand : IsBest(m1, S) /\ IsBest(m2, S) => m1 = m2
<1> SUFFICES ASSUME NEW S \in SUBSET Cand, NEW m1 \in Cand, NEW m2 \in Cand, IsBest(m1, S), IsBest(m2, S), m1 # m2
             PROVE FALSE
    OBVIOUS
<1>1. Better(m1, m2) \/ Better(m2, m1) BY Linear
<1> QED BY <1>1 DEF IsBest

THEOREM InitInv == Init => Inv
<1> SUFFICES ASSUME Init PROVE Inv OBVIOUS
<1>1. PICK x \in Cand : acc = x /\ rest = Cand \ {x} BY DEF Init
<1>2. Cand \ rest = {x} BY <1>1
<1>3. ~Better(x, x) BY Linear
<1> QED BY <1>1, <1>2, <1>3 DEF Inv, IsBest

THEOREM NextInv == Inv /\ [Next]_vars => Inv'
<1> SUFFICES ASSUME Inv, [Next]_vars PROVE Inv' OBVIOUS
<1>1. CASE UNCHANGED vars BY <1>1 DEF Inv, IsBest, vars
<1>2. CASE Next
    <2>1. PICK x \in rest : acc' = Pick(acc, x) /\ rest' = rest \ {x} BY <1>2 DEF Next
    <2>2. x \in Cand /\ acc \in Cand BY <2>1 DEF Inv
    <2>3. acc' \in Cand BY <2>1, <2>2 DEF Pick
    <2>4. rest' \subseteq Cand BY <2>1 DEF Inv
    <2>5. Cand \ rest' = (Cand \ rest) \cup {x} BY <2>1, <2>2
    <2>6. acc' \in Cand \ rest'
        <3>1. acc \in Cand \ rest BY DEF Inv, IsBest
        <3> QED BY <3>1, <2>1, <2>5 DEF Pick
    <2>7. \A y \in Cand \ rest' : ~Better(y, acc')
        <3> SUFFICES ASSUME NEW y \in Cand \ rest' PROVE ~Better(y, acc') OBVIOUS
        <3>1. \A z \in Cand \ rest : ~Better(z, acc) BY DEF Inv, IsBest
        <3>2. CASE Better(x, acc)
            <4>1. acc' = x BY <2>1, <3>2 DEF Pick
            <4>2. ~Better(x, x) BY <2>2, Linear
            <4>3. ASSUME y \in Cand \ rest, Better(y, x) PROVE FALSE
                <5>1. Better(y, acc) BY <4>3, <3>2, <2>2, Linear
                <5> QED BY <5>1, <3>1, <4>3
            <4> QED BY <4>1, <4>2, <4>3, <2>5
        <3>3. CASE ~Better(x, acc)
            <4>1. acc' = acc BY <2>1, <3>3 DEF Pick
            <4> QED BY <4>1, <3>1, <3>3, <2>5
        <3> QED BY <3>2, <3>3
    <2> QED BY <2>3, <2>4, <2>6, <2>7 DEF Inv, IsBest
<1> QED BY <1>1, <1>2

THEOREM Safety == Spec => []Inv
  BY InitInv, NextInv, PTL DEF Spec

\* when the pool is used up, the accumulator is the one best candidate of the whole pool,
\* whatever the order of the reduction steps and whichever candidate it started from
THEOREM OrderIndependent ==
    \A m \in Cand : Inv /\ rest = {} /\ IsBest(m, Cand) => acc = m
<1> SUFFICES ASSUME NEW m \in Cand, Inv, rest = {}, IsBest(m, Cand) PROVE acc = m OBVIOUS
<1>1. IsBest(acc, Cand) BY DEF Inv
<1>2. acc \in Cand BY DEF Inv
<1> QED BY <1>1, <1>2, BestUnique
=============================================================================
