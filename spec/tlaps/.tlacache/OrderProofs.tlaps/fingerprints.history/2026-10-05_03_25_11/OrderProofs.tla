---------------------------- MODULE OrderProofs ----------------------------
(***************************************************************************)
(* C03 on the specification, UNBOUNDED (TLAPS): the zero-padded            *)
(* lexicographic order that Dewey!CmpTok defines is a strict total order   *)
(* on component vectors of any common length N (a version with fewer       *)
(* components is the same vector padded with zeros, so N = the longer      *)
(* length), and with the revision as last key a total preorder.  TLC       *)
(* checks this for lengths <= 3 and values in a small set, Apalache for    *)
(* lengths <= 4 and all integers; here N and the components are arbitrary. *)
(***************************************************************************)
EXTENDS Integers, NaturalsInduction, TLAPS

CONSTANT N
ASSUME NNat == N \in Nat

Vec == [1..N -> Int]

Lt(a, b) == \E i \in 1..N : a[i] < b[i] /\ \A j \in 1..(i - 1) : a[j] = b[j]
Eq(a, b) == \A i \in 1..N : a[i] = b[i]

\* with the revision as the last key
LtR(a, ra, b, rb) == Lt(a, b) \/ (Eq(a, b) /\ ra < rb)
LeR(a, ra, b, rb) == Lt(a, b) \/ (Eq(a, b) /\ ra <= rb)

THEOREM LtIrreflexive == \A a \in Vec : ~Lt(a, a)
  BY DEF Lt, Vec

THEOREM LtTransitive == \A a, b, c \in Vec : Lt(a, b) /\ Lt(b, c) => Lt(a, c)
<1> SUFFICES ASSUME NEW a \in Vec, NEW b \in Vec, NEW c \in Vec, Lt(a, b), Lt(b, c)
             PROVE Lt(a, c)
    OBVIOUS
<1>1. PICK i1 \in 1..N : a[i1] < b[i1] /\ \A j \in 1..(i1 - 1) : a[j] = b[j]
    BY DEF Lt
<1>2. PICK i2 \in 1..N : b[i2] < c[i2] /\ \A j \in 1..(i2 - 1) : b[j] = c[j]
    BY DEF Lt
<1>3. CASE i1 <= i2
    <2>1. a[i1] < c[i1] /\ \A j \in 1..(i1 - 1) : a[j] = c[j]
        BY <1>1, <1>2, <1>3, NNat DEF Vec
    <2> QED BY <2>1 DEF Lt
<1>4. CASE i2 < i1
    <2>1. a[i2] < c[i2] /\ \A j \in 1..(i2 - 1) : a[j] = c[j]
        BY <1>1, <1>2, <1>4, NNat DEF Vec
    <2> QED BY <2>1 DEF Lt
<1> QED BY <1>3, <1>4, NNat

THEOREM Trichotomy == \A a, b \in Vec : Lt(a, b) \/ Lt(b, a) \/ Eq(a, b)
<1> SUFFICES ASSUME NEW a \in Vec, NEW b \in Vec, ~Eq(a, b)
             PROVE Lt(a, b) \/ Lt(b, a)
    OBVIOUS
<1> DEFINE D == {i \in 1..N : a[i] # b[i]}
<1>1. D # {} /\ D \subseteq Nat
    BY NNat DEF Eq
<1>2. PICK m \in D : \A k \in D : m <= k
    <2> DEFINE P(n) == n \in D
    <2>1. \E n \in Nat : P(n)
        BY <1>1
    <2>2. \E n \in Nat : P(n) /\ \A k \in 0..(n - 1) : ~P(k)
        <3> HIDE DEF P
        <3> QED BY <2>1, SmallestNatural
    <2> QED BY <2>2, <1>1
<1>3. \A j \in 1..(m - 1) : a[j] = b[j]
    BY <1>2, NNat
<1>4. a[m] < b[m] \/ b[m] < a[m]
    BY <1>2 DEF Vec
<1> QED BY <1>2, <1>3, <1>4 DEF Lt


THEOREM LtEqLeft == \A a, b, c \in Vec : Eq(a, b) /\ Lt(b, c) => Lt(a, c)
  BY DEF Lt, Eq, Vec
THEOREM LtEqRight == \A a, b, c \in Vec : Lt(a, b) /\ Eq(b, c) => Lt(a, c)
  BY DEF Lt, Eq, Vec
THEOREM EqEquivalence == \A a, b, c \in Vec : Eq(a, a) /\ (Eq(a, b) => Eq(b, a)) /\ (Eq(a, b) /\ Eq(b, c) => Eq(a, c))
  BY DEF Eq, Vec
THEOREM LtExcludesEq == \A a, b \in Vec : Lt(a, b) => ~Eq(a, b)
  BY DEF Lt, Eq, Vec
THEOREM LtAsymmetric == \A a, b \in Vec : Lt(a, b) => ~Lt(b, a)
<1> SUFFICES ASSUME NEW a \in Vec, NEW b \in Vec, Lt(a, b), Lt(b, a) PROVE FALSE
    OBVIOUS
<1>1. Lt(a, a) BY LtTransitive
<1> QED BY <1>1, LtIrreflexive

(* the four operators on versions with a revision: a total preorder (C03)  *)
THEOREM LeRTransitive ==
    \A a, b, c \in Vec : \A ra, rb, rc \in Int :
        LeR(a, ra, b, rb) /\ LeR(b, rb, c, rc) => LeR(a, ra, c, rc)
<1> SUFFICES ASSUME NEW a \in Vec, NEW b \in Vec, NEW c \in Vec, NEW ra \in Int, NEW rb \in Int, NEW rc \in Int,
                    LeR(a, ra, b, rb), LeR(b, rb, c, rc)
             PROVE LeR(a, ra, c, rc)
    OBVIOUS
<1>1. CASE Lt(a, b) /\ Lt(b, c) BY <1>1, LtTransitive DEF LeR
<1>2. CASE Lt(a, b) /\ Eq(b, c) BY <1>2, LtEqRight DEF LeR
<1>3. CASE Eq(a, b) /\ Lt(b, c) BY <1>3, LtEqLeft DEF LeR
<1>4. CASE Eq(a, b) /\ ra <= rb /\ Eq(b, c) /\ rb <= rc BY <1>4, EqEquivalence DEF LeR
<1> QED BY <1>1, <1>2, <1>3, <1>4 DEF LeR

THEOREM Duality ==        \* "<=" is the negation of ">" (and ">=" of "<", by symmetry)
    \A a, b \in Vec : \A ra, rb \in Int : LeR(a, ra, b, rb) <=> ~LtR(b, rb, a, ra)
<1> SUFFICES ASSUME NEW a \in Vec, NEW b \in Vec, NEW ra \in Int, NEW rb \in Int
             PROVE LeR(a, ra, b, rb) <=> ~LtR(b, rb, a, ra)
    OBVIOUS
<1>1. Lt(a, b) \/ Lt(b, a) \/ Eq(a, b) BY Trichotomy
<1>2. Lt(a, b) => ~Lt(b, a) /\ ~Eq(a, b) /\ ~Eq(b, a) BY LtAsymmetric, LtExcludesEq, EqEquivalence
<1>3. Lt(b, a) => ~Lt(a, b) /\ ~Eq(a, b) /\ ~Eq(b, a) BY LtAsymmetric, LtExcludesEq, EqEquivalence
<1>4. Eq(a, b) <=> Eq(b, a) BY EqEquivalence
<1> QED BY <1>1, <1>2, <1>3, <1>4 DEF LeR, LtR

THEOREM ExactlyOne ==     \* exactly one of A<B, A>B, (A<=B and A>=B)
    \A a, b \in Vec : \A ra, rb \in Int :
        LET lt == LtR(a, ra, b, rb)  gt == LtR(b, rb, a, ra)  eq == LeR(a, ra, b, rb) /\ LeR(b, rb, a, ra)
        IN (lt /\ ~gt /\ ~eq) \/ (~lt /\ gt /\ ~eq) \/ (~lt /\ ~gt /\ eq)
<1> SUFFICES ASSUME NEW a \in Vec, NEW b \in Vec, NEW ra \in Int, NEW rb \in Int
             PROVE LET lt == LtR(a, ra, b, rb)  gt == LtR(b, rb, a, ra)  eq == LeR(a, ra, b, rb) /\ LeR(b, rb, a, ra)
                   IN (lt /\ ~gt /\ ~eq) \/ (~lt /\ gt /\ ~eq) \/ (~lt /\ ~gt /\ eq)
    OBVIOUS
<1>1. Lt(a, b) \/ Lt(b, a) \/ Eq(a, b) BY Trichotomy
<1>2. Lt(a, b) => ~Lt(b, a) /\ ~Eq(a, b) /\ ~Eq(b, a) BY LtAsymmetric, LtExcludesEq, EqEquivalence
<1>3. Lt(b, a) => ~Lt(a, b) /\ ~Eq(a, b) /\ ~Eq(b, a) BY LtAsymmetric, LtExcludesEq, EqEquivalence
<1>4. Eq(a, b) <=> Eq(b, a) BY EqEquivalence
<1> QED BY <1>1, <1>2, <1>3, <1>4 DEF LeR, LtR

=============================================================================
