(* automatically generated -- do not edit manually *)
theory OrderProofs imports Constant Zenon begin
ML_command \<open> writeln ("*** TLAPS PARSED\n"); \<close>
consts
  "isReal" :: c
  "isa_slas_a" :: "[c,c] => c"
  "isa_bksl_diva" :: "[c,c] => c"
  "isa_perc_a" :: "[c,c] => c"
  "isa_peri_peri_a" :: "[c,c] => c"
  "isInfinity" :: c
  "isa_lbrk_rbrk_a" :: "[c] => c"
  "isa_less_more_a" :: "[c] => c"

lemma ob'37:
(* usable definition CONSTANT_NatInductiveDefHypothesis_ suppressed *)
(* usable definition CONSTANT_NatInductiveDefConclusion_ suppressed *)
(* usable definition CONSTANT_FiniteNatInductiveDefHypothesis_ suppressed *)
(* usable definition CONSTANT_FiniteNatInductiveDefConclusion_ suppressed *)
(* usable definition CONSTANT_EnabledWrapper_ suppressed *)
(* usable definition CONSTANT_CdotWrapper_ suppressed *)
fixes a_CONSTANTunde_Nunde_a
(* usable definition CONSTANT_Vec_ suppressed *)
(* usable definition CONSTANT_Lt_ suppressed *)
(* usable definition CONSTANT_Eq_ suppressed *)
(* usable definition CONSTANT_LtR_ suppressed *)
(* usable definition CONSTANT_LeR_ suppressed *)
fixes a_CONSTANTunde_aunde_a
assumes a_CONSTANTunde_aunde_a_in : "(a_CONSTANTunde_aunde_a \<in> (a_CONSTANTunde_Vecunde_a))"
fixes a_CONSTANTunde_bunde_a
assumes a_CONSTANTunde_bunde_a_in : "(a_CONSTANTunde_bunde_a \<in> (a_CONSTANTunde_Vecunde_a))"
assumes v'32: "((~ ((a_CONSTANTunde_Equnde_a ((a_CONSTANTunde_aunde_a), (a_CONSTANTunde_bunde_a))))))"
(* usable definition CONSTANT_P_ suppressed *)
assumes v'42: "(\<exists> a_CONSTANTunde_nunde_a \<in> (Nat) : ((a_CONSTANTunde_Punde_a ((a_CONSTANTunde_nunde_a)))))"
assumes v'43: "((\<And> a_CONSTANTunde_Punde_a_1 :: c => c. (\<And> a_CONSTANTunde_nunde_a :: c. a_CONSTANTunde_nunde_a \<in> (Nat) \<Longrightarrow> (((a_CONSTANTunde_Punde_a_1 ((a_CONSTANTunde_nunde_a)))) \<Longrightarrow> (\<exists> a_CONSTANTunde_munde_a \<in> (Nat) : (((a_CONSTANTunde_Punde_a_1 ((a_CONSTANTunde_munde_a)))) & (\<forall> a_CONSTANTunde_kunde_a \<in> ((intvl (((0)), ((subint ((a_CONSTANTunde_munde_a), ((succ[0])))))))) : ((~ ((a_CONSTANTunde_Punde_a_1 ((a_CONSTANTunde_kunde_a)))))))))))))"
shows "(\<exists> a_CONSTANTunde_nunde_a \<in> (Nat) : ((((a_CONSTANTunde_Punde_a ((a_CONSTANTunde_nunde_a)))) \<and> (\<forall> a_CONSTANTunde_kunde_a \<in> ((intvl (((0)), ((subint ((a_CONSTANTunde_nunde_a), ((succ[0])))))))) : ((~ ((a_CONSTANTunde_Punde_a ((a_CONSTANTunde_kunde_a))))))))))"(is "PROP ?ob'37")
proof -
ML_command \<open> writeln "*** TLAPS ENTER 37"; \<close>
show "PROP ?ob'37"
using assms by auto
ML_command \<open> writeln "*** TLAPS EXIT 37"; \<close> qed
end
