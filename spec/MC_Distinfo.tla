----------------------------- MODULE MC_Distinfo -----------------------------
(***************************************************************************)
(* C10 and C11 on the specification, and the cases for spec -> impl.       *)
(* Mode "canon": Distinfo values assembled entry by entry (as through the  *)
(*   API): <= MaxItems files, names with sub-directories and bytes >= 0x80 *)
(*   (C3 A0, C3 85, a lone E9), any ordered choice of <= 2 of the six      *)
(*   algorithms, sizes up to u64::MAX.  Round trips both ways.             *)
(* Mode "lines": every sequence of <= MaxItems lines over recognised and   *)
(*   ignorable line kinds.  Grouping, order, separation, no-ops.           *)
(***************************************************************************)
EXTENDS Distinfo, TLC, Json

CONSTANTS MaxItems, Mode
ASSUME DistinfoLiteralsOK /\ DigestLiteralsOK

H1 == <<97, 98, 99, 49>>    H2 == <<48, 48, 102, 102>>    \* "abc1" "00ff"
DistNames  == { <<102>>, <<115, 117, 98, 47, 102>>, <<110, 195, 160>>, <<110, 195, 133>>, <<110, 233>>,
                <<103, 46, 116, 97, 114, 46, 103, 122>>, Codes("patch-2.7.tar.gz"), Codes("foo.patch-1"), Codes("emul-x-patch-b.tar.gz") }
PatchNames == { Codes("patch-a"), Codes("emul-x-patch-b"), <<112, 97, 116, 99, 104, 45, 233>>, Codes("sub/patch-c") }
Sizes == { <<>>, <<55>>, Codes("18446744073709551615") }        \* 0, 7, u64::MAX (normalised digits)
RcsLines == { <<>>, LitRcs \o Codes("distinfo,v 1.1 $"), LitRcs \o <<233, 32, 160, 36, 32>> }
SumChoices == { <<>>, <<<<4, H1>>>>, <<<<5, H2>>>>, <<<<4, H1>>, <<6, H2>>>>, <<<<1, H2>>, <<3, H1>>>>, <<<<2, H1>>, <<2, H2>>>> }

\* ---- line kinds for mode "lines" ----
Ln(alg, name, h) == alg \o <<SP, LPAR>> \o name \o <<RPAR, SP, EQ, SP>> \o h
SzLn(name, n)    == LitSize \o <<SP, LPAR>> \o name \o <<RPAR, SP, EQ, SP>> \o n \o <<SP>> \o LitBytes
LineKinds == { Ln(Codes("SHA1"), <<102>>, H1), Ln(Codes("RMD160"), <<102>>, H2), SzLn(<<102>>, <<55>>), SzLn(<<102>>, <<56>>),
               Ln(Codes("sha512"), <<103>>, H1), SzLn(<<103>>, <<57>>),
               Ln(Codes("SHA1"), Codes("patch-a"), H1), Ln(Codes("MD5"), Codes("emul-x-patch-b"), H2),
               Ln(Codes("SHA1"), Codes("patch-local-c"), H1), Ln(Codes("SHA1"), Codes("patch-d.orig"), H1),
               Ln(Codes("SHA1"), Codes("patch-e.rej"), H2), Ln(Codes("SHA1"), Codes("patch-f~"), H1),
               Ln(Codes("SHA1"), Codes("foo.patch-1"), H1), Ln(Codes("MD5"), Codes("emul-x-patch-b.tar.gz"), H2), Ln(Codes("BLAKE2s"), <<110, 195, 160>>, H2),
               <<SP, TAB>> \o Ln(Codes("SHA256"), <<102>>, H2), Codes("SHA1") \o <<SP, SP, TAB, LPAR, 102, RPAR, SP, SP, SP, EQ, TAB>> \o H2,
               Codes("# comment"), <<>>, <<SP, SP>>, Ln(Codes("SHA3"), <<102>>, H1), SzLn(<<102>>, Codes("1x")),
               SzLn(<<102>>, Codes("18446744073709551616")), Codes("SHA1 f = abc1"), Codes("garbage line here ok"),
               LitRcs \o Codes("x $"), Codes("$NetBSD$") }
Ignorable(l) == LineClass(l)[1] = "none"

VARIABLES d, lines, n
Init == d = EmptyDI /\ lines = <<>> /\ n = 0

AddDist  == \E nm \in DistNames, sc \in SumChoices, sz \in Sizes :
              /\ IndexOf(d.dist, nm) = 0 /\ (sc # <<>> \/ sz # <<>>)
              /\ d' = [d EXCEPT !.dist = Append(@, [name |-> nm, size |-> IF sz = <<>> THEN <<>> ELSE <<sz>>, sums |-> sc])]
AddPatch == \E nm \in PatchNames, sc \in SumChoices \ {<<>>} :
              /\ IndexOf(d.patch, nm) = 0
              /\ d' = [d EXCEPT !.patch = Append(@, [name |-> nm, size |-> <<>>, sums |-> sc])]
SetRcs   == n = 0 /\ \E r \in RcsLines \ {<<>>} : d' = [d EXCEPT !.rcsid = <<r>>]
NextCanon == n < MaxItems /\ n' = n + 1 /\ (AddDist \/ AddPatch \/ SetRcs) /\ UNCHANGED lines
NextLines == n < MaxItems /\ n' = n + 1 /\ (\E l \in LineKinds : lines' = Append(lines, l)) /\ UNCHANGED d
Next == IF Mode = "canon" THEN NextCanon ELSE NextLines

Text == IF Mode = "canon" THEN AsBytes(d) ELSE JoinTerm(lines, <<NL>>)
Parsed == FromBytes(Text)

\* C10: write -> parse gives the value back; parse -> write reproduces canonical text
WriteParse == Mode = "canon" => Parsed = d
ParseWrite == Mode = "canon" => AsBytes(Parsed) = Text
ClassOK    == \A nm \in DistNames : ~IsPatch(nm) /\ \A pn \in PatchNames : IsPatch(pn)
PatchRule  == \A nm \in DistNames \cup PatchNames \cup {Codes("patch-local-c"), Codes("patch-d.orig"), Codes("patch-e.rej"),
                                 Codes("patch-f~"), Codes("emul-patch-x"), Codes("sub/emul-a-patch-b.tar.gz")} :
                 PatchJudged(nm) \/ nm = Codes("emul-patch-x")

\* C11, declaratively: recognised lines only, names in first-appearance order, checksums in
\* line order, the last size line wins, patches apart
Recog == SelectSeq([i \in 1..Len(lines) |-> LineClass(lines[i])], LAMBDA c : c[1] \in {"sum", "size"})
NameOfC(c) == IF c[1] = "sum" THEN c[3] ELSE c[2]
RECURSIVE FirstNames(_, _)
FirstNames(cs, seen) == IF cs = <<>> THEN <<>>
                        ELSE IF NameOfC(cs[1]) \in seen THEN FirstNames(Tail(cs), seen)
                        ELSE <<NameOfC(cs[1])>> \o FirstNames(Tail(cs), seen \cup {NameOfC(cs[1])})
RefEntry(nm) == LET mine == SelectSeq(Recog, LAMBDA c : NameOfC(c) = nm)
                    sums == SelectSeq(mine, LAMBDA c : c[1] = "sum")
                    szs  == SelectSeq(mine, LAMBDA c : c[1] = "size")
                IN [name |-> nm, size |-> IF szs = <<>> THEN <<>> ELSE <<szs[Len(szs)][3]>>,
                    sums |-> [i \in 1..Len(sums) |-> <<sums[i][2], sums[i][4]>>]]
RefDI == LET names == FirstNames(Recog, {})
             rcs == SelectSeq([i \in 1..Len(lines) |-> LineClass(lines[i])], LAMBDA c : c[1] = "rcs")
         IN [rcsid |-> IF rcs = <<>> THEN <<>> ELSE <<rcs[Len(rcs)][2]>>,
             dist  |-> [i \in 1..Len(SelectSeq(names, LAMBDA x : ~IsPatch(x))) |-> RefEntry(SelectSeq(names, LAMBDA x : ~IsPatch(x))[i])],
             patch |-> [i \in 1..Len(SelectSeq(names, IsPatch)) |-> RefEntry(SelectSeq(names, IsPatch)[i])]]
FoldIsRef == Mode = "lines" => /\ Parsed = RefDI
                               /\ FoldLines(lines, 1, EmptyDI) = FoldLinesRef(lines, 1, EmptyDI)     \* fold = recursion
NoOps == Mode = "lines" => FromBytes(JoinTerm(SelectSeq(lines, LAMBDA l : ~Ignorable(l)), <<NL>>)) = Parsed

DIJson(x) == [rcsid |-> x.rcsid, dist |-> x.dist, patch |-> x.patch]
\* names looked up in every parsed text: recorded ones, the last component of a recorded one on
\* its own, a recorded one behind a further directory, in the other table
Probes == <<<<102>>, <<115, 117, 98, 47, 102>>, <<118, 50, 47, 102>>, Codes("patch-a"), Codes("sub/patch-a"), Codes("patch-c"),
            Codes("sub/patch-c"), Codes("emul-x-patch-b"), <<103>>, Codes("patch-")>>
TF(b) == IF b THEN "T" ELSE "F"
Hits(x) == [i \in 1..Len(Probes) |-> <<TF(IndexOf(x.dist, Probes[i]) # 0), TF(IndexOf(x.patch, Probes[i]) # 0)>>]
Emit == Judged(Text) =>
          PrintT(<<"CASE", ToJson([op |-> "distparse", in |-> [bytes |-> Text, probes |-> Probes],
                                   out |-> [d |-> DIJson(Parsed), out |-> AsBytes(Parsed), hits |-> Hits(Parsed)]])>>)
=============================================================================
