CONSTANTS MaxItems = 3
  Mode = "meta"
INIT Init
NEXT Next
INVARIANTS EachOnce SplitOK ValidRule Emit
CHECK_DEADLOCK FALSE
