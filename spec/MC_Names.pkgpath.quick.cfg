CONSTANTS MaxPieces = 4
  Mode = "pkgpath"
INIT Init
NEXT Next
INVARIANTS Lossless RevIsTok SplitAgrees AccessorsAgree AcceptIsRef Spellings Emit
CHECK_DEADLOCK FALSE
