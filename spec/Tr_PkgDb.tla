------------------------------ MODULE Tr_PkgDb ------------------------------
(***************************************************************************)
(* Implementation -> specification for C20.                                *)
(*  pkgdb    {entries} -> {listed, reads_ok}: iteration over a real tree   *)
(*  metahist {calls} -> {steps: [{ret, st, valid}]}: replayed through the  *)
(*           Metadata machine (ReadMetadata)                               *)
(*  metaname {f} -> {entry, back}: file name <-> entry bijection           *)
(***************************************************************************)
EXTENDS PkgDb, TLC, Json, IOUtils

Rec == ndJsonDeserialize(IOEnv.TRACE)

Root(r) == IF "root" \in DOMAIN r.in THEN r.in.root ELSE "dir"
Flag(e, f) == f \in DOMAIN e /\ e[f] = "T"
Cfg(r) == [i \in 1..Len(r.in.entries) |-> [name |-> r.in.entries[i].name, dir |-> r.in.entries[i].dir = "T",
                                           files |-> RangeOf(r.in.entries[i].files), utf8 |-> ~Flag(r.in.entries[i], "raw")]]
\* base/version are judged for names with a '-' (the statement says "its last '-'")
Norm(x) == IF HasDash(x.pkgname) THEN x ELSE [pkgname |-> x.pkgname, base |-> <<>>, version |-> <<>>]
DbVerdict(r) ==
    IF ~({"open", "listed", "errors", "reads_ok"} \subseteq DOMAIN r.out) THEN "bad"
    ELSE LET want == {Norm(x) : x \in DbListed(Root(r), Cfg(r))}
             got  == r.out.listed
         IN IF /\ r.out.open = OpenOutcome(Root(r))
               /\ \A i \in 1..Len(got) : DOMAIN got[i] = {"pkgname", "base", "version"}
               /\ {Norm(got[i]) : i \in 1..Len(got)} = want
               /\ Len(got) = Cardinality(want)                       \* each exactly once
               /\ r.out.errors = DbErrors(Root(r), Cfg(r))
               /\ r.out.reads_ok = "T"
               /\ ("again" \in DOMAIN r.out => r.out.again = "F")     \* exhausted stays exhausted (each package once)
            THEN "ok" ELSE "bad"

\* C20 fixes is_valid ("exactly when comment, contents and description are all non-empty") and that
\* malformed sizes are errors; whether a second read of the same entry appends or replaces is not
\* part of it, so a field is compared only while its entry has been read at most once, and
\* is_valid only while no mandatory entry has been read twice.
MetaVerdict(r) ==
    IF ~("steps" \in DOMAIN r.out) \/ Len(r.out.steps) # Len(r.in.calls) THEN "bad"
    ELSE LET Reads(i, e) == Cardinality({j \in 1..i : r.in.calls[j][1] = e})
             RECURSIVE Go(_, _)
             Go(i, st) == IF i > Len(r.in.calls) THEN TRUE
                          ELSE LET res == ReadMetadata(st, r.in.calls[i][1], r.in.calls[i][2])
                                   o   == r.out.steps[i]
                               IN /\ o.ret = res[2]
                                  /\ \A e \in 1..NM : Reads(i, e) <= 1 => o.st[e] = res[1][e]
                                  /\ (\A e \in Mandatory : Reads(i, e) <= 1) => o.valid = (IF IsValid(res[1]) THEN "T" ELSE "F")
                                  /\ Go(i + 1, res[1])
         IN IF Go(1, MetaInit) THEN "ok" ELSE "bad"

NameVerdict(r) == LET i == FromFilename(r.in.f) IN
                  IF r.out = [entry |-> i, back |-> IF i = 0 THEN <<>> ELSE ToFilename(i)] THEN "ok" ELSE "bad"

Verdict(r) == CASE r.op = "pkgdb" -> DbVerdict(r) [] r.op = "metahist" -> MetaVerdict(r)
                [] r.op = "metaname" -> NameVerdict(r) [] OTHER -> "bad"

VARIABLES k, blk
NB == 48
Init == blk \in 0..(NB - 1) /\ k = 0 /\ Len(Rec) >= 0    \* forces the one-time load of the trace
Next == k = 0 /\ k' \in {i \in 1..Len(Rec) : i % NB = blk} /\ UNCHANGED blk
Check == k = 0 \/ LET v == Verdict(Rec[k]) IN v = "ok" \/ PrintT(<<"MISMATCH", k, v>>)
=============================================================================
