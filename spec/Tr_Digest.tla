------------------------------ MODULE Tr_Digest ------------------------------
(***************************************************************************)
(* Trace validation for C13: a record is one call of hash_file/hash_patch  *)
(* (all six algorithms) through a scripted reader: {mode, data, sched} ->  *)
(* {results, claim, agree, str_agree} or {err, claim}.  The scripted       *)
(* schedule is replayed through the reader machine of Digest.tla (Read,    *)
(* Interrupted, HardError, Eof).  At the end: the call failed iff the      *)
(* machine ended in "error"; the harness's claim of the absorbed bytes     *)
(* must be the machine's absorbed bytes (so the oracle digest the harness  *)
(* compared against - "agree" - is H of the specified bytes).              *)
(*  algname {s} -> {ok: [] | [canonical spelling]}                          *)
(***************************************************************************)
EXTENDS DigestReader, TLC, Json, IOUtils

Rec == ndJsonDeserialize(IOEnv.TRACE)

VARIABLES k, l
vars == <<mode, input, pos, pending, absorbed, status, k, l>>
Done == 99999
Sched == Rec[k].in.sched
IsDigest == Rec[k].op = "digest"

Init == /\ k \in 1..Len(Rec) /\ l = 1
        /\ mode = IF Rec[k].op = "digest" THEN Rec[k].in.mode ELSE "plain"
        /\ input = IF Rec[k].op = "digest" THEN Rec[k].in.data ELSE <<>>
        /\ pos = 0 /\ pending = <<>> /\ absorbed = <<>> /\ status = "reading"

Event == /\ IsDigest /\ l <= Len(Sched) /\ status = "reading"
         /\ LET ev == Sched[l] IN
            \/ (ev[1] = "read" /\ Read(ev[2]))
            \/ (ev[1] = "intr" /\ Interrupted)
            \/ (ev[1] = "err" /\ HardError)
            \/ (ev[1] = "eof" /\ Eof)
         /\ l' = l + 1 /\ UNCHANGED k
\* a reader that has nothing scripted any more delivers the rest and then end-of-file
Rest == /\ IsDigest /\ l > Len(Sched) /\ l # Done /\ status = "reading"
        /\ IF pos < Len(input) THEN Read(Len(input) - pos) ELSE Eof
        /\ UNCHANGED <<k, l>>

EndOK == LET o == Rec[k].out IN
         IF status = "error" THEN "err" \in DOMAIN o
         ELSE /\ {"results", "claim", "agree", "str_agree"} \subseteq DOMAIN o
              /\ o.claim = absorbed                  \* the bytes the specification says are absorbed
              /\ o.agree = "T"                       \* library digests = H(those bytes), all six algorithms
              /\ o.str_agree \in {"T", "na"}         \* string entry point = reader entry point
              /\ absorbed = Absorbed(mode, input)

NameOK == LET a == AlgFromStr(Rec[k].in.s) IN
          Rec[k].out = [ok |-> IF a = 0 THEN <<>> ELSE <<AlgNames[a]>>]

\* A history is accepted when no specified step is possible any more and the end conditions
\* hold; if no specified step explains the next logged event, or the end conditions fail, it
\* is rejected.  (ENABLED makes the rejection independent of why a step is impossible.)
Step == Event \/ Rest
Terminal == IF IsDigest THEN status \in {"done", "error"} /\ EndOK
            ELSE Rec[k].op = "algname" /\ NameOK
Reject == /\ l # Done /\ ~ENABLED Step /\ ~Terminal
          /\ PrintT(<<"MISMATCH", k, "base">>)
          /\ l' = Done /\ UNCHANGED <<mode, input, pos, pending, absorbed, status, k>>
Next == Step \/ Reject
=============================================================================
