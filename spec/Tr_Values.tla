------------------------------ MODULE Tr_Values ------------------------------
(***************************************************************************)
(* Extension check: recorded equality / hash / clone / order observations  *)
(* of PkgName, PkgPath, Pattern and Depend against Values.tla.              *)
(*  values {what, a, b} -> {oka, okb, eq, qe, hash_eq, clone_eq, clone_hash, cmp?, pmc?} *)
(* hash_eq is not a function of the inputs (unequal values may collide):   *)
(* it is required only where the values are equal.                         *)
(***************************************************************************)
EXTENDS Values, TLC, Json, IOUtils

Rec == ndJsonDeserialize(IOEnv.TRACE)

JudgedV(r) == CASE r.in.what = "pattern" -> Judged(r.in.a) /\ Judged(r.in.b)
                [] r.in.what = "depend"  -> DependJudged(r.in.a) /\ DependJudged(r.in.b)
                [] OTHER -> TRUE
Without(o, k) == [x \in DOMAIN o \ {k} |-> o[x]]
Verdict(r) ==
    IF ~({"oka", "okb"} \subseteq DOMAIN r.out) THEN "bad"
    ELSE IF ~JudgedV(r) THEN "ok"
    ELSE LET e == Expected(r.in.what, r.in.a, r.in.b) IN
         IF "hash_eq" \in DOMAIN r.out
         THEN IF Without(r.out, "hash_eq") = e /\ (e.eq = "T" => r.out.hash_eq = "T") THEN "ok" ELSE "bad"
         ELSE IF r.out = e THEN "ok" ELSE "bad"

VARIABLES k, blk
NB == 48
Init == blk \in 0..(NB - 1) /\ k = 0 /\ Len(Rec) >= 0
Next == k = 0 /\ k' \in {i \in 1..Len(Rec) : i % NB = blk} /\ UNCHANGED blk
Check == k = 0 \/ LET v == Verdict(Rec[k]) IN v = "ok" \/ PrintT(<<"MISMATCH", k, v>>)
=============================================================================
