----------------------------- MODULE MC_Summary -----------------------------
(***************************************************************************)
(* The pkg_summary entry as a state machine over a reduced variable set    *)
(* (one variable per kind x required/optional) and small value domains:    *)
(* every history of at most Depth set_/push_ calls.  With EmitHist (used   *)
(* with -simulate over the FULL table) every behaviour is printed for      *)
(* replay on the real Summary.                                             *)
(***************************************************************************)
EXTENDS Summary, TLC, Json, SequencesExt

CONSTANTS Depth, FullTable, EmitHist

ASSUME TableOK

UseVars == IF FullTable THEN Vars ELSE {3, 4, 6, 9, 10, 22}   \* COMMENT CONFLICTS DESCRIPTION FILE_SIZE HOMEPAGE SIZE_PKG
ReqHere == Required \cap UseVars
Texts == IF FullTable THEN { <<>>, <<120>>, <<97, EQ, 98>>, <<233>>, <<49>>, <<32, 120, 32>>, <<EQ>>, <<128150>>,
                             <<112, DASH, 49>>, <<112, DASH, 113, DASH, 49>>, <<112, DASH>>, <<DASH, 49>> }
         ELSE { <<>>, <<120>>, <<97, EQ, 98>>, <<233>> }
Ints  == IF FullTable THEN { <<DASH, 49>>, <<48>>, <<55>>, Codes("9223372036854775807"), Codes("-9223372036854775808") }
         ELSE { <<DASH, 49>>, <<48>>, <<55>> }
Lists == { <<x>> : x \in Texts } \cup { <<x, y>> : x \in {<<120>>, <<>>}, y \in Texts }

VARIABLES e, n, hist, fin
vars == <<e, n, hist, fin>>

Init == e = Empty /\ n = 0 /\ hist = <<>> /\ fin = FALSE

Log(kind, v, x, e2) == IF EmitHist THEN Append(hist, [k |-> kind, v |-> v, x |-> x, e |-> e2]) ELSE hist

SetS(v) == /\ VKind(v) = "S" /\ \E x \in Texts : e' = SetVal(e, v, x) /\ hist' = Log("set", v, x, e')
SetI(v) == /\ VKind(v) = "I" /\ \E x \in Ints  : e' = SetVal(e, v, x) /\ hist' = Log("set", v, x, e')
SetA(v) == /\ VKind(v) = "A" /\ \E x \in Lists : e' = SetVal(e, v, x) /\ hist' = Log("set", v, x, e')
PushA(v) == /\ VKind(v) = "A" /\ \E x \in Texts : e' = PushVal(e, v, x) /\ hist' = Log("push", v, x, e')

Call == /\ n < Depth /\ n' = n + 1 /\ UNCHANGED fin
        /\ \E v \in UseVars : SetS(v) \/ SetI(v) \/ SetA(v) \/ PushA(v)
\* a behaviour ends with one Finish step (in simulation mode TLC evaluates invariants on every
\* candidate successor, so the behaviour is printed at the single successor of the last call)
Finish == n = Depth /\ ~fin /\ fin' = TRUE /\ UNCHANGED <<e, n, hist>>
Next == Call \/ Finish
Spec == Init /\ [][Next]_vars
View == <<e, n, fin>>

\* no "internal error": every stored value has the kind of its variable
TypeOK == \A v \in Vars : e[v] = <<>> \/
             (IF VKind(v) = "A" THEN e[v][1] \in Seq(Seq(Int)) /\ Len(e[v][1]) >= 1
              ELSE IF VKind(v) = "I" THEN IsI64Text(e[v][1]) /\ I64Print(I64Value(e[v][1])) = e[v][1]
              ELSE TRUE)
CompletedHere == \A v \in ReqHere : e[v] # <<>>
\* print -> parse gives the entry back (C07), judged on the reduced required set
Padding == [v \in Vars |-> IF v \in Required \ UseVars THEN <<IF VKind(v) = "A" THEN <<<<112>>>> ELSE IF VKind(v) = "I" THEN <<49>> ELSE <<112>>>> ELSE <<>>]
Padded == [v \in Vars |-> IF e[v] # <<>> THEN e[v] ELSE Padding[v]]
RoundTrip == CompletedHere => Parse(Render(Padded)) = <<"ok", Padded>>
\* parse -> print reproduces canonical text byte for byte
Reprint == CompletedHere => Canonical(Render(Padded))
OneLinePerValue == Len(SelectSeq(Render(e), LAMBDA c : c = NL)) = ValueCount(e)
\* parsing fails iff some cause is present, and then names one of them (C08)
CausesOK == LET t == Render(e)  r == Parse(t) IN
            /\ (r[1] = "ok") = (Causes(t) = {})
            /\ r[1] = "err" => <<r[2], r[3]>> \in Causes(t)
            /\ Completed(e) = (\A v \in Required : e[v] # <<>>)

TF(b) == IF b THEN "T" ELSE "F"
\* Summary::from_str projected as the harness records it; a failure may name any cause present
ParseJson(t) == LET r == Parse(t) IN
                IF r[1] = "ok" THEN [ok |-> r[2], text |-> Render(r[2]), done |-> TF(Completed(r[2]))]
                ELSE [anyof |-> SetToSeq({[err |-> c] : c \in Causes(t)})]
Emit == (EmitHist /\ fin) =>
          PrintT(<<"CASE", ToJson([op |-> "sumhist", each |-> 1,
                                   in |-> [steps |-> [i \in 1..Len(hist) |-> <<hist[i].k, hist[i].v, hist[i].x>>]],
                                   out |-> [ok |-> "T", stable |-> "T",
                                            snaps |-> [i \in 1..Len(hist) |-> hist[i].e],
                                            texts |-> [i \in 1..Len(hist) |-> Render(hist[i].e)],
                                            done  |-> [i \in 1..Len(hist) |-> TF(Completed(hist[i].e))],
                                            pb    |-> [i \in 1..Len(hist) |-> AccBase(hist[i].e)],
                                            pv    |-> [i \in 1..Len(hist) |-> AccVer(hist[i].e)],
                                            desc  |-> [i \in 1..Len(hist) |-> DescStr(hist[i].e)],
                                            reparse |-> ParseJson(Render(e))]])>>)
=============================================================================
