------------------------------ MODULE Distinfo ------------------------------
(***************************************************************************)
(* distinfo files (src/distinfo.rs) - C10, C11, C12.                       *)
(*                                                                         *)
(* All text is bytes.  A Distinfo value is                                 *)
(*   [rcsid |-> <<>> | <<line>>, dist |-> seq of entries, patch |-> seq]   *)
(* an entry is [name, size |-> <<>> | <<digits>>, sums |-> seq of          *)
(* <<alg, hash>>]; sequences are in first-appearance order.                *)
(***************************************************************************)
EXTENDS Digest

Ws == AsciiWs        \* blanks that separate fields (after repair F6: ASCII only)

LitSize   == <<83, 105, 122, 101>>                       \* "Size"
LitRcs    == <<36, 78, 101, 116, 66, 83, 68, 58, 32>>    \* "$NetBSD: "
LitNoRcs  == <<36, 78, 101, 116, 66, 83, 68, 36>>        \* "$NetBSD$"
LitBytes  == <<98, 121, 116, 101, 115>>                  \* "bytes"
LitPatch  == <<112, 97, 116, 99, 104, 45>>               \* "patch-"
LitLocal  == <<112, 97, 116, 99, 104, 45, 108, 111, 99, 97, 108, 45>>   \* "patch-local-"
LitEmul   == <<101, 109, 117, 108, 45>>                  \* "emul-"
LitDPatch == <<45, 112, 97, 116, 99, 104, 45>>           \* "-patch-"
LitOrig   == <<46, 111, 114, 105, 103>>                  \* ".orig"
LitRej    == <<46, 114, 101, 106>>                       \* ".rej"
LitTar    == <<46, 116, 97, 114, 46>>                    \* ".tar."
DistinfoLiteralsOK ==
    /\ LitSize = Codes("Size") /\ LitRcs = Codes("$NetBSD: ") /\ LitNoRcs = Codes("$NetBSD$") /\ LitBytes = Codes("bytes")
    /\ LitPatch = Codes("patch-") /\ LitLocal = Codes("patch-local-") /\ LitEmul = Codes("emul-")
    /\ LitDPatch = Codes("-patch-") /\ LitOrig = Codes(".orig") /\ LitRej = Codes(".rej") /\ LitTar = Codes(".tar.")

\* ---- patch-file classification, on the last path component ---------------------------
LastComp(name) == LET i == LastPos(name, SLASH) IN SubSeq(name, i + 1, Len(name))
IsPatch(name) ==
    LET f == LastComp(name) IN
    /\ ~StartsWith(f, LitLocal) /\ ~EndsWith(f, LitOrig) /\ ~EndsWith(f, LitRej) /\ ~EndsWith(f, <<TILDE>>)
    /\ (StartsWith(f, LitPatch) \/ (StartsWith(f, LitEmul) /\ HasSub(f, LitDPatch)))
    /\ ~HasSub(f, LitTar)
\* the statement's own wording, as globs: patch-* and emul-*-patch-*, except ...
IsPatchRef(name) ==
    LET f == LastComp(name)
        emul == \E i \in (Len(LitEmul) + 1)..Len(f) : StartsWith(f, LitEmul) /\ StartsWithAt(f, i, LitDPatch)
    IN (StartsWith(f, LitPatch) \/ emul)
       /\ ~StartsWith(f, LitLocal) /\ ~EndsWith(f, LitOrig) /\ ~EndsWith(f, LitRej)
       /\ (f = <<>> \/ f[Len(f)] # TILDE) /\ ~HasSub(f, LitTar)
\* the two differ only on emul-patch-x (shared hyphen), which is not judged
PatchJudged(name) == IsPatch(name) = IsPatchRef(name)

\* ---- one line ---------------------------------------------------------------------
\* <<"none">> | <<"rcs", line>> | <<"size", name, digits>> | <<"sum", alg, name, hash>> |
\* <<"unjudged">> (truncated checksum lines, missing '=')
LineClass(raw) ==
    LET line == TrimLeft(raw, Ws) IN
    IF line = <<>> \/ line[1] = HASH THEN <<"none">>
    ELSE IF StartsWith(line, LitRcs) THEN <<"rcs", line>>
    ELSE LET fs == Fields(line, Ws) IN
         IF Len(fs) < 2 THEN (IF AlgFromStr(fs[1]) # 0 THEN <<"unjudged">> ELSE <<"none">>)
         ELSE LET f2 == fs[2]
                  paren == Len(f2) >= 2 /\ f2[1] = LPAR /\ f2[Len(f2)] = RPAR
              IN IF ~paren THEN <<"none">>
                 ELSE LET name == SubSeq(f2, 2, Len(f2) - 1)
                          val  == IF Len(fs) >= 4 THEN fs[4] ELSE <<>>
                      IN IF fs[1] = LitSize THEN
                              (IF ValidUtf8(val) /\ IsU64Text(val) THEN
                                   (IF Len(fs) >= 3 /\ fs[3] = <<EQ>> THEN <<"size", name, U64Value(val)>> ELSE <<"unjudged">>)
                               ELSE <<"none">>)
                         ELSE LET a == IF ValidUtf8(fs[1]) THEN AlgFromStr(fs[1]) ELSE 0 IN
                              IF a = 0 THEN <<"none">>
                              ELSE IF Len(fs) < 4 \/ fs[3] # <<EQ>> THEN <<"unjudged">>
                              ELSE IF ~ValidUtf8(val) THEN <<"none">>
                              ELSE <<"sum", a, name, val>>

\* ---- the fold: one action per kind of line ----------------------------------------
EmptyDI == [rcsid |-> <<>>, dist |-> <<>>, patch |-> <<>>]
IndexOf(es, name) == LET S == {i \in 1..Len(es) : es[i].name = name} IN IF S = {} THEN 0 ELSE CHOOSE i \in S : TRUE
NewEntry(name) == [name |-> name, size |-> <<>>, sums |-> <<>>]
Upd(es, name, F(_)) == LET i == IndexOf(es, name) IN
                       IF i = 0 THEN Append(es, F(NewEntry(name))) ELSE [es EXCEPT ![i] = F(es[i])]
RcsLine(d, l)          == [d EXCEPT !.rcsid = <<l>>]
SizeLine(d, name, n)   == IF IsPatch(name) THEN [d EXCEPT !.patch = Upd(d.patch, name, LAMBDA e : [e EXCEPT !.size = <<n>>])]
                          ELSE [d EXCEPT !.dist = Upd(d.dist, name, LAMBDA e : [e EXCEPT !.size = <<n>>])]
SumLine(d, a, name, h) == IF IsPatch(name) THEN [d EXCEPT !.patch = Upd(d.patch, name, LAMBDA e : [e EXCEPT !.sums = Append(e.sums, <<a, h>>)])]
                          ELSE [d EXCEPT !.dist = Upd(d.dist, name, LAMBDA e : [e EXCEPT !.sums = Append(e.sums, <<a, h>>)])]
ApplyLine(d, raw) ==
    LET c == LineClass(raw) IN
    CASE c[1] = "rcs"  -> RcsLine(d, c[2])
      [] c[1] = "size" -> SizeLine(d, c[2], c[3])
      [] c[1] = "sum"  -> SumLine(d, c[2], c[3], c[4])
      [] OTHER -> d

FoldLines(ls, i0, d0) == FoldL(LAMBDA d, l : ApplyLine(d, l), d0, SubSeq(ls, i0, Len(ls)))
RECURSIVE FoldLinesRef(_, _, _)
FoldLinesRef(ls, i, d) == IF i > Len(ls) THEN d ELSE FoldLinesRef(ls, i + 1, ApplyLine(d, ls[i]))
FromBytes(t) == FoldLines(SplitOn(t, NL), 1, EmptyDI)
\* (a name on which the code's reading of the patch rule and the statement's globs differ -
\* emul-patch-x, where "-patch-" begins inside "emul-" - is not judged either)
Judged(t) == \A l \in RangeOf(SplitOn(t, NL)) :
                LET c == LineClass(l) IN
                /\ c[1] # "unjudged"
                /\ c[1] = "size" => PatchJudged(c[2])
                /\ c[1] = "sum" => PatchJudged(c[3])

\* ---- writing ---------------------------------------------------------------------
SumOut(e, s)  == AlgNames[s[1]] \o <<SP, LPAR>> \o e.name \o <<RPAR, SP, EQ, SP>> \o s[2] \o <<NL>>
SizeOut(e)    == IF e.size = <<>> THEN <<>>
                 ELSE LitSize \o <<SP, LPAR>> \o e.name \o <<RPAR, SP, EQ, SP>> \o U64Print(e.size[1]) \o <<SP>> \o LitBytes \o <<NL>>
EntryOut(e, withSize) == Flatten([i \in 1..Len(e.sums) |-> SumOut(e, e.sums[i])]) \o (IF withSize THEN SizeOut(e) ELSE <<>>)
AsBytes(d) == (IF d.rcsid = <<>> THEN LitNoRcs ELSE d.rcsid[1]) \o <<NL, NL>>
              \o Flatten([i \in 1..Len(d.dist) |-> EntryOut(d.dist[i], TRUE)])
              \o Flatten([i \in 1..Len(d.patch) |-> EntryOut(d.patch[i], FALSE)])     \* patches: checksums only

\* ---- lookup and verification (C12) ------------------------------------------------
\* path as a sequence of components; candidates are its trailing sub-paths, shortest first
RECURSIVE JoinComps(_)
JoinComps(cs) == IF Len(cs) = 1 THEN cs[1] ELSE cs[1] \o <<SLASH>> \o JoinComps(Tail(cs))
Suffix(cs, n) == JoinComps(SubSeq(cs, Len(cs) - n + 1, Len(cs)))
\* the machine: grow the trailing sub-path one component at a time, first hit wins
RECURSIVE FindFrom2(_, _, _)
FindFrom2(es, cs, n) == IF n > Len(cs) THEN 0
                        ELSE LET i == IndexOf(es, Suffix(cs, n)) IN IF i # 0 THEN i ELSE FindFrom2(es, cs, n + 1)
MapFor(d, cs) == IF IsPatch(cs[Len(cs)]) THEN d.patch ELSE d.dist
FindEntry(d, cs) == FindFrom2(MapFor(d, cs), cs, 1)
\* the statement: the shortest recorded trailing sub-path
FindRef(d, cs) ==
    LET es == MapFor(d, cs)
        N  == {n \in 1..Len(cs) : IndexOf(es, Suffix(cs, n)) # 0}
    IN IF N = {} THEN 0 ELSE IndexOf(es, Suffix(cs, CHOOSE n \in N : \A m \in N : n <= m))

\* outcomes; hashes are compared as text, eq tells whether the recorded text equals the
\* digest of the bytes the specification says are absorbed
VerifySize(e, filelen) == IF e.size = <<>> THEN <<"MissingSize">>
                          ELSE IF e.size[1] = filelen THEN <<"Ok">> ELSE <<"Size", e.size[1], filelen>>
FirstSum(e, a) == LET S == {i \in 1..Len(e.sums) : e.sums[i][1] = a} IN IF S = {} THEN 0 ELSE CHOOSE i \in S : \A j \in S : i <= j
ModeOf(e) == IF IsPatch(e.name) THEN "patch" ELSE "plain"
=============================================================================
