------------------------------- MODULE Text -------------------------------
(***************************************************************************)
(* Shared text utilities.  Text is a sequence of integer codes: Unicode    *)
(* scalar values for &str inputs, bytes 0..255 for &[u8] inputs.           *)
(* TLC can evaluate Len, \o, SubSeq and = on TLA+ strings but cannot index *)
(* them, so literals are written Codes("alpha") and converted once (TLC    *)
(* caches constant-level zero-arity definitions).                          *)
(***************************************************************************)
EXTENDS Naturals, Integers, Sequences, FiniteSets

\* printable ASCII 32..126 in code order
Printable == " !\"#$%&'()*+,-./0123456789:;<=>?@ABCDEFGHIJKLMNOPQRSTUVWXYZ[\\]^_`abcdefghijklmnopqrstuvwxyz{|}~"

CodeOf1(c) == 31 + (CHOOSE i \in 1..95 : SubSeq(Printable, i, i) = c)

Codes(s) == [i \in 1..Len(s) |-> CodeOf1(SubSeq(s, i, i))]

\* named codes
NUL == 0      TAB == 9     NL == 10     VT == 11    FF == 12    CR == 13
SP  == 32     HASH == 35   DOLLAR == 36 LPAR == 40  RPAR == 41  STAR == 42
PLUS == 43    COMMA == 44  DASH == 45   DOT == 46   SLASH == 47 COLON == 58
LT == 60      EQ == 61     GT == 62     QM == 63    AT == 64    LBRK == 91
RBRK == 93    USCORE == 95 LBRACE == 123 RBRACE == 125 TILDE == 126 BANG == 33

Digit      == 48..57
Upper      == 65..90
LowerCase  == 97..122
Alpha      == Upper \cup LowerCase
AlNum      == Alpha \cup Digit
AsciiWs    == {9, 10, 12, 13, 32}          \* u8::is_ascii_whitespace
UniWsByte  == {9, 10, 11, 12, 13, 32, 133, 160}  \* (b as char).is_whitespace()

ToLower(c) == IF c \in Upper THEN c + 32 ELSE c
LowerSeq(s) == [i \in 1..Len(s) |-> ToLower(s[i])]

MinOf(a, b) == IF a < b THEN a ELSE b
MaxOf(a, b) == IF a > b THEN a ELSE b

Drop(s, n) == SubSeq(s, n + 1, Len(s))        \* s without its first n items
Take(s, n) == SubSeq(s, 1, n)

StartsWith(s, p) == Len(p) <= Len(s) /\ SubSeq(s, 1, Len(p)) = p
EndsWith(s, p)   == Len(p) <= Len(s) /\ SubSeq(s, Len(s) - Len(p) + 1, Len(s)) = p
StartsWithAt(s, i, p) ==   \* p occurs in s at 1-based position i
    i + Len(p) - 1 <= Len(s) /\ SubSeq(s, i, i + Len(p) - 1) = p
HasSub(s, p) == \E i \in 1..(Len(s) - Len(p) + 1) : StartsWithAt(s, i, p)
Has(s, c) == \E i \in 1..Len(s) : s[i] = c

\* positions (1-based) of code c in s, ascending
Positions(s, c) == {i \in 1..Len(s) : s[i] = c}
FirstPos(s, c) == IF Has(s, c) THEN CHOOSE i \in Positions(s, c) : \A j \in Positions(s, c) : i <= j ELSE 0
LastPos(s, c)  == IF Has(s, c) THEN CHOOSE i \in Positions(s, c) : \A j \in Positions(s, c) : i >= j ELSE 0
FirstPosIn(s, S) == LET P == {i \in 1..Len(s) : s[i] \in S}
                    IN IF P = {} THEN 0 ELSE CHOOSE i \in P : \A j \in P : i <= j

\* first position >= from at which pattern p occurs in s, 0 if none
RECURSIVE FindFrom(_, _, _)
FindFrom(s, p, from) ==
    IF from + Len(p) - 1 > Len(s) THEN 0
    ELSE IF StartsWithAt(s, from, p) THEN from
    ELSE FindFrom(s, p, from + 1)
Find(s, p) == FindFrom(s, p, 1)
RECURSIVE RFindFrom(_, _, _)
RFindFrom(s, p, from) ==
    IF from < 1 THEN 0
    ELSE IF StartsWithAt(s, from, p) THEN from
    ELSE RFindFrom(s, p, from - 1)
RFind(s, p) == RFindFrom(s, p, Len(s) - Len(p) + 1)

\* split at every occurrence of code c (like Rust's split(c)): always >= 1 piece
RECURSIVE SplitOnAcc(_, _, _, _)
SplitOnAcc(s, c, i, cur) ==
    IF i > Len(s) THEN <<cur>>
    ELSE IF s[i] = c THEN <<cur>> \o SplitOnAcc(s, c, i + 1, <<>>)
    ELSE SplitOnAcc(s, c, i + 1, Append(cur, s[i]))
SplitOn(s, c) == SplitOnAcc(s, c, 1, <<>>)

\* split at codes in set S, dropping empty pieces (split_whitespace-like)
RECURSIVE FieldsAcc(_, _, _, _)
FieldsAcc(s, S, i, cur) ==
    IF i > Len(s) THEN (IF cur = <<>> THEN <<>> ELSE <<cur>>)
    ELSE IF s[i] \in S THEN (IF cur = <<>> THEN <<>> ELSE <<cur>>) \o FieldsAcc(s, S, i + 1, <<>>)
    ELSE FieldsAcc(s, S, i + 1, Append(cur, s[i]))
Fields(s, S) == FieldsAcc(s, S, 1, <<>>)

RECURSIVE TrimLeft(_, _)
TrimLeft(s, S) == IF s # <<>> /\ s[1] \in S THEN TrimLeft(Tail(s), S) ELSE s
RECURSIVE TrimRight(_, _)
TrimRight(s, S) == IF s # <<>> /\ s[Len(s)] \in S THEN TrimRight(SubSeq(s, 1, Len(s) - 1), S) ELSE s
Trim(s, S) == TrimRight(TrimLeft(s, S), S)

\* Rust str::lines(): split at \n, strip one trailing \r of each line, a
\* final empty piece (text ending in \n, or empty text) yields nothing.
StripCR(l) == IF l # <<>> /\ l[Len(l)] = CR THEN SubSeq(l, 1, Len(l) - 1) ELSE l
Lines(s) == LET ps == SplitOn(s, NL)
                n  == Len(ps)
                qs == IF ps[n] = <<>> THEN SubSeq(ps, 1, n - 1) ELSE ps
            IN [i \in 1..Len(qs) |-> StripCR(qs[i])]

\* concatenation of a sequence of sequences, each followed by sep
RECURSIVE JoinTerm(_, _)
JoinTerm(ss, sep) == IF ss = <<>> THEN <<>> ELSE Head(ss) \o sep \o JoinTerm(Tail(ss), sep)
RECURSIVE Flatten(_)
Flatten(ss) == IF ss = <<>> THEN <<>> ELSE Head(ss) \o Flatten(Tail(ss))

\* sequences as sets / filters
SelectSeqIdx(s, Test(_)) == SelectSeq([i \in 1..Len(s) |-> i], Test)
RangeOf(s) == {s[i] : i \in 1..Len(s)}

(***************************************************************************)
(* Decimal digit strings as numbers, no machine arithmetic: a digit run of *)
(* any length is normalised (leading zeros removed; zero is <<>>) and       *)
(* compared by length, then lexicographically.                             *)
(***************************************************************************)
RECURSIVE StripZeros(_)
StripZeros(d) == IF d # <<>> /\ d[1] = 48 THEN StripZeros(Tail(d)) ELSE d

RECURSIVE LexCmp(_, _)       \* -1, 0, 1 on integer sequences
LexCmp(a, b) ==
    IF a = <<>> /\ b = <<>> THEN 0
    ELSE IF a = <<>> THEN -1
    ELSE IF b = <<>> THEN 1
    ELSE IF a[1] < b[1] THEN -1
    ELSE IF a[1] > b[1] THEN 1
    ELSE LexCmp(Tail(a), Tail(b))

NumCmp(a, b) ==              \* a, b normalised digit sequences
    IF Len(a) < Len(b) THEN -1
    ELSE IF Len(a) > Len(b) THEN 1
    ELSE LexCmp(a, b)

IsDigits(s) == \A i \in 1..Len(s) : s[i] \in Digit

\* digit sequence of a small natural number (for ranks, lengths, ...)
RECURSIVE NatDigits(_)
NatDigits(n) == IF n < 10 THEN <<48 + n>> ELSE NatDigits(n \div 10) \o <<48 + (n % 10)>>
NatNorm(n) == IF n = 0 THEN <<>> ELSE NatDigits(n)

I64MaxDigits == Codes("9223372036854775807")
I64MinMag    == Codes("9223372036854775808")
U64MaxDigits == Codes("18446744073709551615")

\* Rust <i64 as FromStr>: optional single + or -, then one or more digits, in range
IsI64Text(s) ==
    LET body == IF s # <<>> /\ s[1] \in {PLUS, DASH} THEN Tail(s) ELSE s
        neg  == s # <<>> /\ s[1] = DASH
    IN /\ body # <<>>
       /\ IsDigits(body)
       /\ NumCmp(StripZeros(body), IF neg THEN I64MinMag ELSE I64MaxDigits) <= 0
\* canonical value of an i64 text: <<negative?, normalised magnitude>>
I64Value(s) ==
    LET body == IF s[1] \in {PLUS, DASH} THEN Tail(s) ELSE s
        mag  == StripZeros(body)
    IN <<(s[1] = DASH /\ mag # <<>>), mag>>
\* Rust Display of an i64 value
I64Print(v) == (IF v[1] THEN <<DASH>> ELSE <<>>) \o (IF v[2] = <<>> THEN <<48>> ELSE v[2])

\* Rust <u64 as FromStr>: optional +, digits, in range
IsU64Text(s) ==
    LET body == IF s # <<>> /\ s[1] = PLUS THEN Tail(s) ELSE s
    IN body # <<>> /\ IsDigits(body) /\ NumCmp(StripZeros(body), U64MaxDigits) <= 0
U64Value(s) == StripZeros(IF s[1] = PLUS THEN Tail(s) ELSE s)
U64Print(v) == IF v = <<>> THEN <<48>> ELSE v

(***************************************************************************)
(* UTF-8 well-formedness on byte sequences, with the exact lead/continuation*)
(* ranges of the Unicode standard (= Rust's from_utf8).                    *)
(***************************************************************************)
Cont == 128..191
\* length of the well-formed character starting at byte i, 0 if ill-formed,
\* -1 if the bytes present are a proper prefix of a well-formed character
CharAt(b, i) ==
    LET n  == Len(b)
        b0 == b[i]
        Have(k) == i + k <= n
        B(k) == b[i + k]
    IN IF b0 < 128 THEN 1
       ELSE IF b0 \in 194..223 THEN
            (IF ~Have(1) THEN -1 ELSE IF B(1) \in Cont THEN 2 ELSE 0)
       ELSE IF b0 \in 224..239 THEN
            LET lo == IF b0 = 224 THEN 160 ELSE 128
                hi == IF b0 = 237 THEN 159 ELSE 191
            IN IF ~Have(1) THEN -1
               ELSE IF B(1) \notin lo..hi THEN 0
               ELSE IF ~Have(2) THEN -1
               ELSE IF B(2) \in Cont THEN 3 ELSE 0
       ELSE IF b0 \in 240..244 THEN
            LET lo == IF b0 = 240 THEN 144 ELSE 128
                hi == IF b0 = 244 THEN 143 ELSE 191
            IN IF ~Have(1) THEN -1
               ELSE IF B(1) \notin lo..hi THEN 0
               ELSE IF ~Have(2) THEN -1
               ELSE IF B(2) \notin Cont THEN 0
               ELSE IF ~Have(3) THEN -1
               ELSE IF B(3) \in Cont THEN 4 ELSE 0
       ELSE 0

\* <<n, st>>: n = length of the longest well-formed prefix; st = "ok" if that
\* is the whole sequence, "incomplete" if the rest is a proper prefix of a
\* character, "invalid" otherwise.
RECURSIVE Utf8Scan(_, _)
Utf8Scan(b, i) ==
    IF i > Len(b) THEN <<Len(b), "ok">>
    ELSE LET k == CharAt(b, i)
         IN IF k > 0 THEN Utf8Scan(b, i + k)
            ELSE IF k = -1 THEN <<i - 1, "incomplete">>
            ELSE <<i - 1, "invalid">>
ValidUtf8(b) == Utf8Scan(b, 1)[2] = "ok"

\* decode a well-formed UTF-8 byte sequence into scalar values
RECURSIVE Utf8Decode(_, _)
Utf8Decode(b, i) ==
    IF i > Len(b) THEN <<>>
    ELSE LET k == CharAt(b, i)
             v == IF k = 1 THEN b[i]
                  ELSE IF k = 2 THEN (b[i] - 192) * 64 + (b[i+1] - 128)
                  ELSE IF k = 3 THEN (b[i] - 224) * 4096 + (b[i+1] - 128) * 64 + (b[i+2] - 128)
                  ELSE (b[i] - 240) * 262144 + (b[i+1] - 128) * 4096 + (b[i+2] - 128) * 64 + (b[i+3] - 128)
         IN <<v>> \o Utf8Decode(b, i + k)
Decode(b) == Utf8Decode(b, 1)

\* encode scalar values as UTF-8 bytes
EncodeChar(v) ==
    IF v < 128 THEN <<v>>
    ELSE IF v < 2048 THEN <<192 + (v \div 64), 128 + (v % 64)>>
    ELSE IF v < 65536 THEN <<224 + (v \div 4096), 128 + ((v \div 64) % 64), 128 + (v % 64)>>
    ELSE <<240 + (v \div 262144), 128 + ((v \div 4096) % 64), 128 + ((v \div 64) % 64), 128 + (v % 64)>>
RECURSIVE Encode(_)
Encode(s) == IF s = <<>> THEN <<>> ELSE EncodeChar(Head(s)) \o Encode(Tail(s))
=============================================================================
