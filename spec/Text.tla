------------------------------- MODULE Text -------------------------------
(***************************************************************************)
(* Shared text utilities.  Text is a sequence of integer codes: Unicode    *)
(* scalar values for &str inputs, bytes 0..255 for &[u8] inputs.           *)
(* TLC can evaluate Len, \o, SubSeq and = on TLA+ strings but cannot index *)
(* them, so literals are written Codes("alpha") and converted once (TLC    *)
(* caches constant-level zero-arity definitions).                          *)
(***************************************************************************)
EXTENDS Naturals, Integers, Sequences, FiniteSets

\* printable ASCII 32..126 in code order
Printable == " !\"#$%&'()*+,-./0123456789:;<=>?@ABCDEFGHIJKLMNOPQRSTUVWXYZ[\\]^_`abcdefghijklmnopqrstuvwxyz{|}~"

CodeOf1(c) == 31 + (CHOOSE i \in 1..95 : SubSeq(Printable, i, i) = c)

Codes(s) == [i \in 1..Len(s) |-> CodeOf1(SubSeq(s, i, i))]

\* named codes
NUL == 0      TAB == 9     NL == 10     VT == 11    FF == 12    CR == 13
SP  == 32     HASH == 35   DOLLAR == 36 LPAR == 40  RPAR == 41  STAR == 42
PLUS == 43    COMMA == 44  DASH == 45   DOT == 46   SLASH == 47 COLON == 58
LT == 60      EQ == 61     GT == 62     QM == 63    AT == 64    LBRK == 91
RBRK == 93    USCORE == 95 LBRACE == 123 RBRACE == 125 TILDE == 126 BANG == 33

Digit      == 48..57
Upper      == 65..90
LowerCase  == 97..122
Alpha      == Upper \cup LowerCase
AlNum      == Alpha \cup Digit
AsciiWs    == {9, 10, 12, 13, 32}          \* u8::is_ascii_whitespace
UniWsByte  == {9, 10, 11, 12, 13, 32, 133, 160}  \* (b as char).is_whitespace()

ToLower(c) == IF c \in Upper THEN c + 32 ELSE c
LowerSeq(s) == [i \in 1..Len(s) |-> ToLower(s[i])]

MinOf(a, b) == IF a < b THEN a ELSE b
MaxOf(a, b) == IF a > b THEN a ELSE b

Drop(s, n) == SubSeq(s, n + 1, Len(s))        \* s without its first n items
Take(s, n) == SubSeq(s, 1, n)

(***************************************************************************)
(* Scale.  TLC evaluates a RECURSIVE operator with one interpreter context *)
(* per level, and its cost per level grows with the depth: a recursion     *)
(* over the 8 000 characters of a long version took minutes.  Everything   *)
(* that walks a whole text is therefore written without recursion: with    *)
(* SelectSeq (module Sequences) and FoldLeft (CommunityModules             *)
(* SequencesExt), both implemented in Java and linear.  The recursive      *)
(* formulations are kept as ...Ref and MC_TextEquiv checks that the two    *)
(* agree on every sequence of a bounded domain.                            *)
(***************************************************************************)
LOCAL INSTANCE SequencesExt
LOCAL INSTANCE TLC
\* (TLCEval: the accumulator is made a concrete value at every step; otherwise a function built
\* with EXCEPT stays a lazily stacked chain of updates whose unevaluated pieces are recomputed
\* at every access)
FoldL(op(_, _), base, seq) == FoldLeft(LAMBDA acc, x : TLCEval(op(acc, x)), base, seq)
\* TLC passes operator arguments unevaluated and evaluates them again at every use inside a
\* LAMBDA or a function constructor (an argument such as Decode(rec) would be recomputed once per
\* character).  A variable bound in a set comprehension holds a value: Let1 / Let2 evaluate their
\* arguments once and apply Op to the values.
\* (Not CHOOSE r \in {...} : TRUE: with a CHOOSE in its definition TLC no longer treats a
\* constant definition that uses Let1 as constant-level and re-evaluates it at every use - the
\* version table of MC_DeweyPairs was rebuilt for every cell, 1000 s instead of 20 s.  SetToSeq is
\* evaluated in Java and returns the one element as a value.)
Let1(a, Op(_)) == Head(SetToSeq({Op(x) : x \in {a}}))
Let2(a, b, Op(_, _)) == Head(SetToSeq({Op(x, y) : x \in {a}, y \in {b}}))
\* v[k] for a computed v.  (Writing Op(...)[k] makes TLC evaluate the whole of Op(...) in its
\* "keep lazy" mode, in which nothing is cached: minutes instead of milliseconds on long inputs.)
Nth(v, k) == Let1(v, LAMBDA x : x[k])
Idx(s) == [i \in 1..Len(s) |-> i]
\* the indices of s, ascending, at which Test holds
Where(s, Test(_)) == SelectSeq(Idx(s), Test)
\* first index in lo..hi at which Test holds, 0 if none
FirstWhere(lo, hi, Test(_)) ==
    LET w == SelectSeq([k \in 1..(IF hi >= lo THEN hi - lo + 1 ELSE 0) |-> lo + k - 1], Test)
    IN IF w = <<>> THEN 0 ELSE w[1]

StartsWith(s, p) == Len(p) <= Len(s) /\ SubSeq(s, 1, Len(p)) = p
EndsWith(s, p)   == Len(p) <= Len(s) /\ SubSeq(s, Len(s) - Len(p) + 1, Len(s)) = p
StartsWithAt(s, i, p) ==   \* p occurs in s at 1-based position i
    i + Len(p) - 1 <= Len(s) /\ SubSeq(s, i, i + Len(p) - 1) = p
HasSub(s, p) == \E i \in 1..(Len(s) - Len(p) + 1) : StartsWithAt(s, i, p)
Has(s, c) == \E i \in 1..Len(s) : s[i] = c

\* positions (1-based) of code c in s
Positions(s, c) == {i \in 1..Len(s) : s[i] = c}
FirstPosV(s, c) == LET w == Where(s, LAMBDA i : s[i] = c) IN IF w = <<>> THEN 0 ELSE w[1]
FirstPos(s, c) == Let1(s, LAMBDA x : FirstPosV(x, c))
LastPosV(s, c) == LET w == Where(s, LAMBDA i : s[i] = c) IN IF w = <<>> THEN 0 ELSE w[Len(w)]
LastPos(s, c) == Let1(s, LAMBDA x : LastPosV(x, c))
FirstPosInV(s, S) == LET w == Where(s, LAMBDA i : s[i] \in S) IN IF w = <<>> THEN 0 ELSE w[1]

FirstPosIn(s, S) == Let1(s, LAMBDA x : FirstPosInV(x, S))
\* first position >= from at which pattern p occurs in s, 0 if none
FindFromV(s, p, from) == FirstWhere(from, Len(s) - Len(p) + 1, LAMBDA i : StartsWithAt(s, i, p))
FindFrom(s, p, from) == Let1(s, LAMBDA x : FindFromV(x, p, from))
Find(s, p) == FindFrom(s, p, 1)
\* last position <= from at which p occurs in s, 0 if none
RFindFromV(s, p, from) ==
    LET w == SelectSeq([k \in 1..(IF from >= 1 THEN from ELSE 0) |-> k], LAMBDA i : StartsWithAt(s, i, p))
    IN IF w = <<>> THEN 0 ELSE w[Len(w)]
RFindFrom(s, p, from) == Let1(s, LAMBDA x : RFindFromV(x, p, from))
RFind(s, p) == RFindFrom(s, p, Len(s) - Len(p) + 1)

\* start positions of the non-overlapping occurrences of p (non-empty) in s, left to right
OccurrencesV(s, p) ==
    LET cand == SelectSeq([k \in 1..(IF Len(s) >= Len(p) THEN Len(s) - Len(p) + 1 ELSE 0) |-> k], LAMBDA i : StartsWithAt(s, i, p))
        r == FoldL(LAMBDA st, i : IF i >= st[1] THEN <<i + Len(p), Append(st[2], i)>> ELSE st, <<1, <<>>>>, cand)
    IN r[2]

Occurrences(s, p) == Let1(s, LAMBDA x : OccurrencesV(x, p))
\* the pieces of s between the (ascending) separator positions P
SplitAtV(s, P) ==
    [k \in 1..(Len(P) + 1) |-> SubSeq(s, IF k = 1 THEN 1 ELSE P[k - 1] + 1, IF k > Len(P) THEN Len(s) ELSE P[k] - 1)]
SplitAt(s, P) == Let2(s, P, LAMBDA x, y : SplitAtV(x, y))
\* split at every occurrence of code c (like Rust's split(c)): always >= 1 piece
SplitOnV(s, c) == SplitAt(s, Where(s, LAMBDA i : s[i] = c))

SplitOn(s, c) == Let1(s, LAMBDA x : SplitOnV(x, c))
\* split at codes in set S, dropping empty pieces (split_whitespace-like)
FieldsV(s, S) == SelectSeq(SplitAt(s, Where(s, LAMBDA i : s[i] \in S)), LAMBDA x : x # <<>>)

Fields(s, S) == Let1(s, LAMBDA x : FieldsV(x, S))
TrimLeftV(s, S) == LET w == Where(s, LAMBDA i : s[i] \notin S) IN IF w = <<>> THEN <<>> ELSE SubSeq(s, w[1], Len(s))
TrimLeft(s, S) == Let1(s, LAMBDA x : TrimLeftV(x, S))
TrimRightV(s, S) == LET w == Where(s, LAMBDA i : s[i] \notin S) IN IF w = <<>> THEN <<>> ELSE SubSeq(s, 1, w[Len(w)])
TrimRight(s, S) == Let1(s, LAMBDA x : TrimRightV(x, S))
TrimV(s, S) == LET w == Where(s, LAMBDA i : s[i] \notin S) IN IF w = <<>> THEN <<>> ELSE SubSeq(s, w[1], w[Len(w)])

Trim(s, S) == Let1(s, LAMBDA x : TrimV(x, S))
\* Rust str::lines(): split at \n, strip one trailing \r of each line, a
\* final empty piece (text ending in \n, or empty text) yields nothing.
StripCR(l) == IF l # <<>> /\ l[Len(l)] = CR THEN SubSeq(l, 1, Len(l) - 1) ELSE l
LinesV(ps) == LET n  == Len(ps)
                  lastEmpty == ps[n] = <<>>
              IN [i \in 1..(IF lastEmpty THEN n - 1 ELSE n) |-> StripCR(ps[i])]
Lines(s) == Let1(SplitOn(s, NL), LinesV)

\* concatenation of a sequence of sequences, each followed by sep
\* (by halves: the recursion is only log2(n) deep and the copying n log n; a left fold would copy
\* the growing result n times, which is quadratic for the 90 000 pieces of a long text)
RECURSIVE FlatDC(_, _, _)
FlatDC(ss, lo, hi) == IF lo > hi THEN <<>>
                      ELSE IF lo = hi THEN ss[lo]
                      ELSE LET mid == (lo + hi) \div 2 IN FlatDC(ss, lo, mid) \o FlatDC(ss, mid + 1, hi)
FlattenV(ss) == FlatDC(ss, 1, Len(ss))
Flatten(ss) == Let1(ss, LAMBDA x : FlattenV(x))
JoinTerm(ss, sep) == Flatten([i \in 1..Len(ss) |-> ss[i] \o sep])

\* ---- the recursive formulations (reference; MC_TextEquiv) --------------------------------
RECURSIVE FindFromRef(_, _, _)
FindFromRef(s, p, from) ==
    IF from + Len(p) - 1 > Len(s) THEN 0
    ELSE IF StartsWithAt(s, from, p) THEN from
    ELSE FindFromRef(s, p, from + 1)
RECURSIVE RFindFromRef(_, _, _)
RFindFromRef(s, p, from) ==
    IF from < 1 THEN 0
    ELSE IF StartsWithAt(s, from, p) THEN from
    ELSE RFindFromRef(s, p, from - 1)
RECURSIVE OccurrencesFrom(_, _, _)
OccurrencesFrom(s, p, from) == LET i == FindFromRef(s, p, from) IN IF i = 0 THEN <<>> ELSE <<i>> \o OccurrencesFrom(s, p, i + Len(p))
OccurrencesRef(s, p) == OccurrencesFrom(s, p, 1)
RECURSIVE SplitOnAcc(_, _, _, _)
SplitOnAcc(s, c, i, cur) ==
    IF i > Len(s) THEN <<cur>>
    ELSE IF s[i] = c THEN <<cur>> \o SplitOnAcc(s, c, i + 1, <<>>)
    ELSE SplitOnAcc(s, c, i + 1, Append(cur, s[i]))
SplitOnRef(s, c) == SplitOnAcc(s, c, 1, <<>>)
RECURSIVE FieldsAcc(_, _, _, _)
FieldsAcc(s, S, i, cur) ==
    IF i > Len(s) THEN (IF cur = <<>> THEN <<>> ELSE <<cur>>)
    ELSE IF s[i] \in S THEN (IF cur = <<>> THEN <<>> ELSE <<cur>>) \o FieldsAcc(s, S, i + 1, <<>>)
    ELSE FieldsAcc(s, S, i + 1, Append(cur, s[i]))
FieldsRef(s, S) == FieldsAcc(s, S, 1, <<>>)
RECURSIVE TrimLeftRef(_, _)
TrimLeftRef(s, S) == IF s # <<>> /\ s[1] \in S THEN TrimLeftRef(Tail(s), S) ELSE s
RECURSIVE TrimRightRef(_, _)
TrimRightRef(s, S) == IF s # <<>> /\ s[Len(s)] \in S THEN TrimRightRef(SubSeq(s, 1, Len(s) - 1), S) ELSE s
RECURSIVE JoinTermRef(_, _)
JoinTermRef(ss, sep) == IF ss = <<>> THEN <<>> ELSE Head(ss) \o sep \o JoinTermRef(Tail(ss), sep)
RECURSIVE FlattenRef(_)
FlattenRef(ss) == IF ss = <<>> THEN <<>> ELSE Head(ss) \o FlattenRef(Tail(ss))

\* sequences as sets / filters
SelectSeqIdx(s, Test(_)) == SelectSeq([i \in 1..Len(s) |-> i], Test)
RangeOf(s) == {s[i] : i \in 1..Len(s)}

(***************************************************************************)
(* Decimal digit strings as numbers, no machine arithmetic: a digit run of *)
(* any length is normalised (leading zeros removed; zero is <<>>) and       *)
(* compared by length, then lexicographically.                             *)
(***************************************************************************)
StripZeros(d) == TrimLeft(d, {48})
RECURSIVE StripZerosRef(_)
StripZerosRef(d) == IF d # <<>> /\ d[1] = 48 THEN StripZerosRef(Tail(d)) ELSE d

\* -1, 0, 1 on integer sequences: the first differing position decides, then the length
LexCmpV(a, b) ==
    LET m == IF Len(a) < Len(b) THEN Len(a) ELSE Len(b)
        i == FirstWhere(1, m, LAMBDA j : a[j] # b[j])
    IN IF i # 0 THEN (IF a[i] < b[i] THEN -1 ELSE 1)
       ELSE IF Len(a) < Len(b) THEN -1 ELSE IF Len(a) > Len(b) THEN 1 ELSE 0
LexCmp(a, b) == Let2(a, b, LAMBDA x, y : LexCmpV(x, y))
RECURSIVE LexCmpRef(_, _)
LexCmpRef(a, b) ==
    IF a = <<>> /\ b = <<>> THEN 0
    ELSE IF a = <<>> THEN -1
    ELSE IF b = <<>> THEN 1
    ELSE IF a[1] < b[1] THEN -1
    ELSE IF a[1] > b[1] THEN 1
    ELSE LexCmpRef(Tail(a), Tail(b))

NumCmp(a, b) ==              \* a, b normalised digit sequences
    IF Len(a) < Len(b) THEN -1
    ELSE IF Len(a) > Len(b) THEN 1
    ELSE LexCmp(a, b)

IsDigits(s) == \A i \in 1..Len(s) : s[i] \in Digit

\* digit sequence of a small natural number (for ranks, lengths, ...)
RECURSIVE NatDigits(_)
NatDigits(n) == IF n < 10 THEN <<48 + n>> ELSE NatDigits(n \div 10) \o <<48 + (n % 10)>>
NatNorm(n) == IF n = 0 THEN <<>> ELSE NatDigits(n)

I64MaxDigits == Codes("9223372036854775807")
I64MinMag    == Codes("9223372036854775808")
U64MaxDigits == Codes("18446744073709551615")

\* Rust <i64 as FromStr>: optional single + or -, then one or more digits, in range
IsI64Text(s) ==
    LET body == IF s # <<>> /\ s[1] \in {PLUS, DASH} THEN Tail(s) ELSE s
        neg  == s # <<>> /\ s[1] = DASH
    IN /\ body # <<>>
       /\ IsDigits(body)
       /\ NumCmp(StripZeros(body), IF neg THEN I64MinMag ELSE I64MaxDigits) <= 0
\* canonical value of an i64 text: <<negative?, normalised magnitude>>
I64Value(s) ==
    LET body == IF s[1] \in {PLUS, DASH} THEN Tail(s) ELSE s
        mag  == StripZeros(body)
    IN <<(s[1] = DASH /\ mag # <<>>), mag>>
\* Rust Display of an i64 value
I64Print(v) == (IF v[1] THEN <<DASH>> ELSE <<>>) \o (IF v[2] = <<>> THEN <<48>> ELSE v[2])

\* Rust <u64 as FromStr>: optional +, digits, in range
IsU64Text(s) ==
    LET body == IF s # <<>> /\ s[1] = PLUS THEN Tail(s) ELSE s
    IN body # <<>> /\ IsDigits(body) /\ NumCmp(StripZeros(body), U64MaxDigits) <= 0
U64Value(s) == StripZeros(IF s[1] = PLUS THEN Tail(s) ELSE s)
U64Print(v) == IF v = <<>> THEN <<48>> ELSE v

(***************************************************************************)
(* UTF-8 well-formedness on byte sequences, with the exact lead/continuation*)
(* ranges of the Unicode standard (= Rust's from_utf8).                    *)
(***************************************************************************)
Cont == 128..191
\* length of the well-formed character starting at byte i, 0 if ill-formed,
\* -1 if the bytes present are a proper prefix of a well-formed character
CharAt(b, i) ==
    LET n  == Len(b)
        b0 == b[i]
        Have(k) == i + k <= n
        B(k) == b[i + k]
    IN IF b0 < 128 THEN 1
       ELSE IF b0 \in 194..223 THEN
            (IF ~Have(1) THEN -1 ELSE IF B(1) \in Cont THEN 2 ELSE 0)
       ELSE IF b0 \in 224..239 THEN
            LET lo == IF b0 = 224 THEN 160 ELSE 128
                hi == IF b0 = 237 THEN 159 ELSE 191
            IN IF ~Have(1) THEN -1
               ELSE IF B(1) \notin lo..hi THEN 0
               ELSE IF ~Have(2) THEN -1
               ELSE IF B(2) \in Cont THEN 3 ELSE 0
       ELSE IF b0 \in 240..244 THEN
            LET lo == IF b0 = 240 THEN 144 ELSE 128
                hi == IF b0 = 244 THEN 143 ELSE 191
            IN IF ~Have(1) THEN -1
               ELSE IF B(1) \notin lo..hi THEN 0
               ELSE IF ~Have(2) THEN -1
               ELSE IF B(2) \notin Cont THEN 0
               ELSE IF ~Have(3) THEN -1
               ELSE IF B(3) \in Cont THEN 4 ELSE 0
       ELSE 0

\* <<n, st>>: n = length of the longest well-formed prefix; st = "ok" if that
\* is the whole sequence, "incomplete" if the rest is a proper prefix of a
\* character, "invalid" otherwise.
Utf8ScanV(b, i0) ==
    LET step(st, i) == IF st[2] # "ok" \/ i < st[1] THEN st
                       ELSE LET k == CharAt(b, i)
                            IN IF k > 0 THEN <<i + k, "ok">>
                               ELSE IF k = -1 THEN <<i, "incomplete">> ELSE <<i, "invalid">>
        r == FoldL(step, <<i0, "ok">>, SubSeq(Idx(b), i0, Len(b)))
    IN IF r[2] = "ok" THEN <<Len(b), "ok">> ELSE <<r[1] - 1, r[2]>>
Utf8Scan(b, i0) == Let1(b, LAMBDA x : Utf8ScanV(x, i0))
RECURSIVE Utf8ScanRef(_, _)
Utf8ScanRef(b, i) ==
    IF i > Len(b) THEN <<Len(b), "ok">>
    ELSE LET k == CharAt(b, i)
         IN IF k > 0 THEN Utf8ScanRef(b, i + k)
            ELSE IF k = -1 THEN <<i - 1, "incomplete">>
            ELSE <<i - 1, "invalid">>
ValidUtf8(b) == Nth(Utf8Scan(b, 1), 2) = "ok"

\* decode a well-formed UTF-8 byte sequence into scalar values: in well-formed UTF-8 the
\* characters start exactly at the bytes that are not continuation bytes
CharValue(b, i) ==
    LET k == CharAt(b, i) IN
    IF k = 1 THEN b[i]
    ELSE IF k = 2 THEN (b[i] - 192) * 64 + (b[i+1] - 128)
    ELSE IF k = 3 THEN (b[i] - 224) * 4096 + (b[i+1] - 128) * 64 + (b[i+2] - 128)
    ELSE (b[i] - 240) * 262144 + (b[i+1] - 128) * 4096 + (b[i+2] - 128) * 64 + (b[i+3] - 128)
Utf8DecodeV(b, i0) == LET st == SelectSeq(SubSeq(Idx(b), i0, Len(b)), LAMBDA i : b[i] \notin Cont)
                     IN [k \in 1..Len(st) |-> CharValue(b, st[k])]
Utf8Decode(b, i0) == Let1(b, LAMBDA x : Utf8DecodeV(x, i0))
RECURSIVE Utf8DecodeRef(_, _)
Utf8DecodeRef(b, i) ==
    IF i > Len(b) THEN <<>>
    ELSE <<CharValue(b, i)>> \o Utf8DecodeRef(b, i + CharAt(b, i))
Decode(b) == Utf8Decode(b, 1)

\* encode scalar values as UTF-8 bytes
EncodeChar(v) ==
    IF v < 128 THEN <<v>>
    ELSE IF v < 2048 THEN <<192 + (v \div 64), 128 + (v % 64)>>
    ELSE IF v < 65536 THEN <<224 + (v \div 4096), 128 + ((v \div 64) % 64), 128 + (v % 64)>>
    ELSE <<240 + (v \div 262144), 128 + ((v \div 4096) % 64), 128 + ((v \div 64) % 64), 128 + (v % 64)>>
EncodeV(s) == Flatten([i \in 1..Len(s) |-> EncodeChar(s[i])])
Encode(s) == Let1(s, LAMBDA x : EncodeV(x))
RECURSIVE EncodeRef(_)
EncodeRef(s) == IF s = <<>> THEN <<>> ELSE EncodeChar(Head(s)) \o EncodeRef(Tail(s))
=========================================================================
====
