------------------------------ MODULE Tr_Dewey ------------------------------
(***************************************************************************)
(* Implementation -> specification for C01 / C03: validate recorded        *)
(* comparison verdicts of the real code.  Every record is an independent   *)
(* observation, so each is an initial state and all workers validate in    *)
(* parallel.                                                               *)
(*  vercmp    {a, b} -> {ab: 9 verdicts about (A,B), ba: 9 about (B,A)}     *)
(*            exact oracle: Cmp of the two strings (C01).                  *)
(*  vertriple {a, b, c} -> verdicts for all pairs + two-bound patterns      *)
(*            no oracle for the strings: the order laws are checked on the *)
(*            observed verdicts themselves (C03).                          *)
(* A mismatch is printed as <<"MISMATCH", k, tag>>; tag "KF1" when the     *)
(* named deviation LetterBase = 96 reproduces the observed outcome.        *)
(***************************************************************************)
EXTENDS Dewey, TLC, Json, IOUtils

Rec == ndJsonDeserialize(IOEnv.TRACE)

PatElig(v)  == ~(\E i \in 1..Len(v) : v[i] \in {LT, GT, LBRACE, RBRACE}) /\ (v = <<>> \/ v[1] # EQ)
NameElig(v) == ~Has(v, DASH)

\* the nine observations of one ordered pair, given the sign of a versus b
NineS(a, b, s) ==
    LET askable == NameElig(a) /\ PatElig(b)
        q(op)   == IF ~askable THEN "na" ELSE IF OpHolds(op, s) THEN "T" ELSE "F"
        best    == IF ~(NameElig(a) /\ NameElig(b)) THEN "na"
                   ELSE IF a = b THEN "ab"
                   ELSE IF s > 0 THEN "a" ELSE IF s < 0 THEN "b"
                   ELSE IF LexCmp(a, b) < 0 THEN "a" ELSE "b"
    IN <<q("GT"), q("GE"), q("LT"), q("LE"), q("GT"), q("GE"), q("LT"), q("LE"), best>>

Shape(o, keys) == keys \subseteq DOMAIN o

\* each version is tokenised once per letter base; the sign of (b, a) is minus that of (a, b)
\* (MC_DeweyLaws / OrderProofs), so long versions cost one comparison
VercmpVerdict(r) ==
    IF ~Shape(r.out, {"ab", "ba"}) THEN "bad"
    ELSE IF LongRun(r.in.a) \/ LongRun(r.in.b) THEN "ok"          \* outside C01's domain
    ELSE LET a == r.in.a  b == r.in.b
             s0 == CmpL(a, b, 0)
         IN IF r.out.ab = NineS(a, b, s0) /\ r.out.ba = NineS(b, a, -s0) THEN "ok"
            ELSE LET s96 == CmpL(a, b, 96) IN
                 IF r.out.ab = NineS(a, b, s96) /\ r.out.ba = NineS(b, a, -s96) THEN "KF1"
                 ELSE "bad"

\* ---- laws on observed verdicts ------------------------------------------------------
\* sign encoded by four verdicts (GT, GE, LT, LE); 2 = not a consistent answer
SignOf(v, o) ==
    LET q == SubSeq(v, o + 1, o + 4) IN
    IF q = <<"T", "T", "F", "F">> THEN 1
    ELSE IF q = <<"F", "T", "F", "T">> THEN 0
    ELSE IF q = <<"F", "F", "T", "T">> THEN -1
    ELSE 2
Asked(v) == v[1] # "na"
PairOK(v) == ~Asked(v) \/ (SignOf(v, 0) # 2 /\ SignOf(v, 4) = SignOf(v, 0))

TripleVerdict(r) ==
    IF ~Shape(r.out, {"ab", "ba", "bc", "cb", "ac", "ca", "aa", "two"}) THEN "bad"
    ELSE LET o == r.out
             names == <<"a", "b", "c">>
             Pair(x, y) == IF x = "a" /\ y = "b" THEN o.ab ELSE IF x = "b" /\ y = "a" THEN o.ba
                           ELSE IF x = "b" /\ y = "c" THEN o.bc ELSE IF x = "c" /\ y = "b" THEN o.cb
                           ELSE IF x = "a" /\ y = "c" THEN o.ac ELSE o.ca
             Txt(x) == IF x = "a" THEN r.in.a ELSE IF x = "b" THEN r.in.b ELSE r.in.c
             Known(x, y) == x = y \/ Asked(Pair(x, y))
             Le(x, y) == x = y \/ SignOf(Pair(x, y), 0) <= 0
             E == {"a", "b", "c"}
         IN IF /\ \A x, y \in E : x # y => PairOK(Pair(x, y))
               /\ PairOK(o.aa) /\ (Asked(o.aa) => SignOf(o.aa, 0) = 0)                \* reflexivity
               /\ \A x, y \in E : (x # y /\ Asked(Pair(x, y)) /\ Asked(Pair(y, x)))
                       => SignOf(Pair(x, y), 0) = -SignOf(Pair(y, x), 0)               \* side independence
               /\ \A x, y, z \in E : (Known(x, y) /\ Known(y, z) /\ Known(x, z) /\ Le(x, y) /\ Le(y, z))
                       => Le(x, z)                                                     \* transitivity
               /\ \A x, y \in E : (x # y /\ Asked(Pair(x, y)) /\ Pair(x, y)[9] # "na") =>
                       LET s == SignOf(Pair(x, y), 0) IN
                       Pair(x, y)[9] = IF Txt(x) = Txt(y) THEN "ab" ELSE IF s > 0 THEN "a" ELSE IF s < 0 THEN "b"
                                       ELSE IF LexCmp(Txt(x), Txt(y)) < 0 THEN "a" ELSE "b"
               /\ \A i \in 1..Len(o.two) :                                            \* two-bound = conjunction
                       LET t == o.two[i] IN
                       /\ t[2] \in {"T", "F"} /\ t[3] \in {"T", "F"}
                       /\ t[1] = IF t[2] = "T" /\ t[3] = "T" THEN "T" ELSE "F"
            THEN "ok" ELSE "bad"

Verdict(r) == CASE r.op = "vercmp" -> VercmpVerdict(r)
                [] r.op = "vertriple" -> TripleVerdict(r)
                [] OTHER -> "bad"

\* Records are independent observations: NB initial "block" states fan out to their
\* records in one step, so that all workers validate in parallel.
VARIABLES k, blk
NB == 48
Init == blk \in 0..(NB - 1) /\ k = 0 /\ Len(Rec) >= 0    \* forces the one-time load of the trace
Next == k = 0 /\ k' \in {i \in 1..Len(Rec) : i % NB = blk} /\ UNCHANGED blk
Check == k = 0 \/ LET v == Verdict(Rec[k]) IN v = "ok" \/ PrintT(<<"MISMATCH", k, v>>)
=============================================================================
