------------------------------ MODULE Pattern ------------------------------
(***************************************************************************)
(* Package patterns (src/pattern.rs): dispatch on the pattern text, csh    *)
(* brace alternation, shell globs, plain strings, the two-character fast   *)
(* reject, and best_match.                                                 *)
(***************************************************************************)
EXTENDS Dewey

HasAnyOf(p, S) == \E i \in 1..Len(p) : p[i] \in S
GlobMeta == {STAR, QM, LBRK, RBRK}

Kind(p) == IF HasAnyOf(p, {LBRACE, RBRACE}) THEN "alt"
           ELSE IF HasAnyOf(p, {LT, GT}) THEN "dewey"
           ELSE IF HasAnyOf(p, GlobMeta) THEN "glob"
           ELSE "plain"

(***************************************************************************)
(* Shell globs.  GlobParse follows the glob crate token by token; the      *)
(* judged subset (GlobJudged) is the part on which every shell-glob        *)
(* engine agrees: literals, single '*', '?', [set] / [!set] whose members  *)
(* are plain characters or ascending ranges.                               *)
(***************************************************************************)
\* members of a bracket set: sequence of <<lo, hi>>
RECURSIVE SetItems(_, _)
SetItems(s, k) ==
    IF k > Len(s) THEN <<>>
    ELSE IF k + 2 <= Len(s) /\ s[k + 1] = DASH THEN <<<<s[k], s[k + 2]>>>> \o SetItems(s, k + 3)
    ELSE <<<<s[k], s[k]>>>> \o SetItems(s, k + 1)

\* status "ok" | "err" | "skip" (skip: '**', outside the judged subset)
RECURSIVE GlobParseFrom(_, _, _)
GlobParseFrom(p, i, toks) ==
    IF i > Len(p) THEN [st |-> "ok", toks |-> toks]
    ELSE LET c == p[i] IN
    IF c = QM THEN GlobParseFrom(p, i + 1, Append(toks, [t |-> "any"]))
    ELSE IF c = STAR THEN
        LET stars == CHOOSE n \in 1..Len(p) :
                        /\ \A j \in i..(i + n - 1) : j <= Len(p) /\ p[j] = STAR
                        /\ (i + n > Len(p) \/ p[i + n] # STAR)
        IN IF stars > 2 THEN [st |-> "err", toks |-> toks]
           ELSE IF stars = 2 THEN [st |-> "skip", toks |-> toks]
           ELSE GlobParseFrom(p, i + 1, Append(toks, [t |-> "star"]))
    ELSE IF c = LBRK THEN
        IF i + 3 <= Len(p) /\ p[i + 1] = BANG THEN
            LET J == {j \in (i + 3)..Len(p) : p[j] = RBRK} IN
            IF J = {} THEN [st |-> "err", toks |-> toks]
            ELSE LET j == CHOOSE x \in J : \A y \in J : x <= y
                 IN GlobParseFrom(p, j + 1,
                        Append(toks, [t |-> "set", neg |-> TRUE, items |-> SetItems(SubSeq(p, i + 2, j - 1), 1)]))
        ELSE IF i + 2 <= Len(p) /\ p[i + 1] # BANG THEN
            LET J == {j \in (i + 2)..Len(p) : p[j] = RBRK} IN
            IF J = {} THEN [st |-> "err", toks |-> toks]
            ELSE LET j == CHOOSE x \in J : \A y \in J : x <= y
                 IN GlobParseFrom(p, j + 1,
                        Append(toks, [t |-> "set", neg |-> FALSE, items |-> SetItems(SubSeq(p, i + 1, j - 1), 1)]))
        ELSE [st |-> "err", toks |-> toks]
    ELSE GlobParseFrom(p, i + 1, Append(toks, [t |-> "lit", c |-> c]))

GlobParse(p) == GlobParseFrom(p, 1, <<>>)

TokMatches(tk, c) ==
    CASE tk.t = "any" -> TRUE
      [] tk.t = "lit" -> tk.c = c
      [] tk.t = "set" -> LET in == \E k \in 1..Len(tk.items) : tk.items[k][1] <= c /\ c <= tk.items[k][2]
                         IN IF tk.neg THEN ~in ELSE in
      [] OTHER -> FALSE

\* textbook whole-string glob matching
RECURSIVE GlobMatchFrom(_, _, _, _)
GlobMatchFrom(toks, ti, n, ni) ==
    IF ti > Len(toks) THEN ni > Len(n)
    ELSE IF toks[ti].t = "star" THEN
        \E k \in ni..(Len(n) + 1) : GlobMatchFrom(toks, ti + 1, n, k)
    ELSE ni <= Len(n) /\ TokMatches(toks[ti], n[ni]) /\ GlobMatchFrom(toks, ti + 1, n, ni + 1)

GlobMatch(p, n) == LET g == GlobParse(p) IN g.st = "ok" /\ GlobMatchFrom(g.toks, 1, n, 1)

\* is the outcome of p fixed by the property (the shell-glob subset)?
SetChars(p) == {i \in 1..Len(p) : \E a \in 1..i, b \in i..Len(p) :
                    /\ p[a] = LBRK /\ p[b] = RBRK /\ a < i /\ i < b
                    /\ \A x \in (a + 1)..(b - 1) : p[x] # RBRK /\ p[x] # LBRK}
GlobJudged(p) ==
    LET g == GlobParse(p) IN
    /\ ~Has(p, 92)                                    \* no backslash (escape in fnmatch)
    /\ g.st # "skip"
    /\ g.st = "ok" =>
         /\ \A k \in 1..Len(g.toks) : g.toks[k].t = "set" =>
               \A m \in 1..Len(g.toks[k].items) :
                   LET it == g.toks[k].items[m] IN
                   /\ it[1] <= it[2]
                   /\ {it[1], it[2]} \cap {BANG, 94, DASH, LBRK, RBRK} = {}
         /\ \A k \in 1..Len(g.toks) : g.toks[k].t = "lit" => g.toks[k].c # LBRK
    /\ g.st = "err" =>                                \* only "unclosed [" is a judged error
         \E i \in 1..Len(p) : p[i] = LBRK /\ \A j \in (i + 1)..Len(p) : p[j] # RBRK

(***************************************************************************)
(* Brace alternation.                                                      *)
(***************************************************************************)
\* nesting depth after each prefix never negative and finally zero
\* (a fold over the characters; the depth -1 is absorbing)
DepthOK(p, i0, d0) ==
    FoldL(LAMBDA d, c : IF d < 0 THEN d ELSE IF c = LBRACE THEN d + 1 ELSE IF c = RBRACE THEN d - 1 ELSE d,
          d0, SubSeq(p, i0, Len(p))) = 0
RECURSIVE DepthOKRef(_, _, _)
DepthOKRef(p, i, d) ==
    IF i > Len(p) THEN d = 0
    ELSE IF p[i] = LBRACE THEN DepthOKRef(p, i + 1, d + 1)
    ELSE IF p[i] = RBRACE THEN d > 0 /\ DepthOKRef(p, i + 1, d - 1)
    ELSE DepthOKRef(p, i + 1, d)
Balanced(p) == DepthOK(p, 1, 0)

\* matching '}' of the '{' at position o (p balanced): first position where depth returns to 0
RECURSIVE CloseOf(_, _, _)
CloseOf(p, i, d) ==
    IF p[i] = RBRACE THEN (IF d = 0 THEN i ELSE CloseOf(p, i + 1, d - 1))
    ELSE IF p[i] = LBRACE THEN CloseOf(p, i + 1, d + 1)
    ELSE CloseOf(p, i + 1, d)

\* split s at commas of depth 0 only
RECURSIVE AltsAcc(_, _, _, _)
AltsAcc(s, i, d, cur) ==
    IF i > Len(s) THEN <<cur>>
    ELSE IF s[i] = COMMA /\ d = 0 THEN <<cur>> \o AltsAcc(s, i + 1, d, <<>>)
    ELSE AltsAcc(s, i + 1,
                 IF s[i] = LBRACE THEN d + 1 ELSE IF s[i] = RBRACE THEN d - 1 ELSE d,
                 Append(cur, s[i]))
Alts(s) == AltsAcc(s, 1, 0, <<>>)

\* csh expansion (declarative): first group, its alternatives at its own depth, recursively
RECURSIVE Csh(_)
Csh(p) ==
    LET o == FirstPos(p, LBRACE) IN
    IF o = 0 THEN {p}
    ELSE LET c   == CloseOf(p, o + 1, 0)
             as  == Alts(SubSeq(p, o + 1, c - 1))
             pre == SubSeq(p, 1, o - 1)
             suf == SubSeq(p, c + 1, Len(p))
         IN { pre \o a \o s : a \in UNION { Csh(as[k]) : k \in 1..Len(as) }, s \in Csh(suf) }

\* the implemented algorithm (after repair F4): right-most '{', first '}' after it,
\* split the inside at every comma, substitute, re-enter (which re-checks balance)
FirstRBFrom(p, o) == CHOOSE j \in o..Len(p) : p[j] = RBRACE /\ \A x \in o..(j - 1) : p[x] # RBRACE

RECURSIVE BraceAlg(_)
BraceAlg(p) ==
    IF ~HasAnyOf(p, {LBRACE, RBRACE}) THEN {p}
    ELSE IF ~Balanced(p) THEN {}
    ELSE LET o  == LastPos(p, LBRACE)
             c  == FirstRBFrom(p, o)
             as == SplitOn(SubSeq(p, o + 1, c - 1), COMMA)
         IN UNION { BraceAlg(SubSeq(p, 1, o - 1) \o as[k] \o SubSeq(p, c + 1, Len(p))) : k \in 1..Len(as) }

\* the shipped loop (defect F4): every '{', paired with the first '}' to its right
RECURSIVE BraceShipped(_)
BraceShipped(p) ==
    IF ~HasAnyOf(p, {LBRACE, RBRACE}) THEN {p}
    ELSE IF ~Balanced(p) THEN {}
    ELSE UNION { LET c  == FirstRBFrom(p, o)
                     as == SplitOn(SubSeq(p, o + 1, c - 1), COMMA)
                 IN UNION { BraceShipped(SubSeq(p, 1, o - 1) \o as[k] \o SubSeq(p, c + 1, Len(p))) : k \in 1..Len(as) }
               : o \in Positions(p, LBRACE) }

(***************************************************************************)
(* Compile and match.                                                      *)
(***************************************************************************)
\* brace-free patterns
CompileOkFlat(e) ==
    LET kd == Kind(e) IN
    CASE kd = "dewey" -> DeweyNew(e).ok
      [] kd = "glob"  -> GlobParse(e).st = "ok"
      [] kd = "plain" -> TRUE

MatchFlatL(e, n, lb) ==
    LET kd == Kind(e) IN
    CASE kd = "dewey" -> LET d == DeweyNew(e) IN d.ok /\ DeweyMatchesL(d, n, lb)
      [] kd = "glob"  -> GlobMatch(e, n)
      [] kd = "plain" -> e = n

CompileOk(p) == IF Kind(p) = "alt" THEN Balanced(p) ELSE CompileOkFlat(p)

\* the property: some csh expansion matches the name as a pattern in its own right
MatchL(p, n, lb) ==
    IF Kind(p) = "alt"
    THEN Balanced(p) /\ \E e \in Csh(p) : CompileOkFlat(e) /\ MatchFlatL(e, n, lb)
    ELSE CompileOkFlat(p) /\ MatchFlatL(p, n, lb)
Match(p, n) == MatchL(p, n, 0)

\* is every verdict about p fixed by the properties?
FlatJudged(e) == Kind(e) = "glob" => GlobJudged(e)
Judged(p) == IF Kind(p) = "alt" THEN (Balanced(p) => \A e \in Csh(p) : FlatJudged(e))
             ELSE FlatJudged(p)

(***************************************************************************)
(* quick_pkg_match: the first-two-characters fast reject.                  *)
(***************************************************************************)
Simple(c) == c \in AlNum \/ c = DASH
Quick(p, n) ==
    IF Len(p) = 0 \/ ~Simple(p[1]) THEN TRUE
    ELSE IF Len(n) = 0 \/ n[1] # p[1] THEN FALSE
    ELSE IF Len(p) = 1 \/ ~Simple(p[2]) THEN TRUE
    ELSE IF Len(n) = 1 \/ n[2] # p[2] THEN FALSE
    ELSE TRUE

\* the implemented matcher: fast reject first, at every level of the recursion
RECURSIVE MatchAlgL(_, _, _)
MatchAlgL(p, n, lb) ==
    /\ Quick(p, n)
    /\ IF Kind(p) = "alt"
       THEN Balanced(p) /\
            LET o  == LastPos(p, LBRACE)
                c  == FirstRBFrom(p, o)
                as == SplitOn(SubSeq(p, o + 1, c - 1), COMMA)
            IN \E k \in 1..Len(as) :
                 LET e == SubSeq(p, 1, o - 1) \o as[k] \o SubSeq(p, c + 1, Len(p))
                 IN CompileOk(e) /\ MatchAlgL(e, n, lb)
       ELSE CompileOkFlat(p) /\ MatchFlatL(p, n, lb)

(***************************************************************************)
(* best_match.                                                             *)
(***************************************************************************)
\* PkgName split: last '-', the whole string and an empty version if none
PkgBase(n) == IF HasDash(n) THEN NameBase(n) ELSE n
PkgVer(n)  == IF HasDash(n) THEN NameVer(n) ELSE <<>>

\* a is strictly better than b: higher version, or same version and byte-wise smaller name
BetterL(a, b, lb) ==
    LET c == CmpL(PkgVer(a), PkgVer(b), lb)
    IN c > 0 \/ (c = 0 /\ LexCmp(Encode(a), Encode(b)) < 0)

\* transcription of Pattern::best_match; result <<>> = None, <<name>> = Some(name)
BestMatchL(p, a, b, lb) ==
    LET ma == MatchL(p, a, lb)  mb == MatchL(p, b, lb) IN
    IF ma /\ ~mb THEN <<a>>
    ELSE IF mb /\ ~ma THEN <<b>>
    ELSE IF ~ma /\ ~mb THEN <<>>
    ELSE LET c == CmpL(PkgVer(a), PkgVer(b), lb)
         IN IF c > 0 THEN <<a>> ELSE IF c < 0 THEN <<b>>
            ELSE IF LexCmp(Encode(a), Encode(b)) < 0 THEN <<a>> ELSE <<b>>

\* best_match of a candidate with itself is the membership test by another route: Some(n)
\* exactly when n matches (MC_PatEnum checks BestMatchL(p, n, n, lb) = BestSelfL(p, n, lb) on every
\* pattern and name of its domain; the conformance steps ask the code for both)
BestSelfL(p, n, lb) == IF MatchL(p, n, lb) THEN <<n>> ELSE <<>>

\* the property, for a finite set of candidates: none if nothing matches, else the
\* matching candidates that no other matching candidate beats
BestSetL(p, S, lb) ==
    LET M == {x \in S : MatchL(p, x, lb)}
    IN {x \in M : \A y \in M : ~BetterL(y, x, lb)}
=============================================================================
