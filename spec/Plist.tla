------------------------------- MODULE Plist -------------------------------
(***************************************************************************)
(* Packing lists (src/plist.rs) - C14 (lines and entries), C15 (queries).  *)
(* Everything is bytes.  An entry is <<kind>> or <<kind, arg>> where arg is *)
(* <<>> (absent) or <<bytes>> for optional arguments and the bytes         *)
(* themselves for required ones; <<"Err">> is a rejected line (the error   *)
(* kind is not part of the property).                                      *)
(***************************************************************************)
EXTENDS Text

\* Blanks are the bytes pkg_install's isspace() (C locale) accepts besides the newline; the code
\* tests (b as char).is_whitespace(), which additionally treats the bytes 0x85 and 0xA0 (NEL and
\* NBSP when the byte is read as a Latin-1 code point) as blanks.  Whether those two are blanks
\* is left open by the statement, so inputs that depend on it are not judged.
Blank == {TAB, VT, FF, CR, SP}
Ambig == {133, 160}
WsP   == Blank \cup Ambig

\* ---- lines ------------------------------------------------------------------------
\* the property: maximal newline-free segments containing a non-blank byte, in order
Segments(b) == SplitOn(b, NL)
IsBlankLine(s) == \A i \in 1..Len(s) : s[i] \in WsP
LinesRef(b) == SelectSeq(Segments(b), LAMBDA s : ~IsBlankLine(s))
\* is "blank" unambiguous for this input?
LinesJudged(b) == \A s \in RangeOf(Segments(b)) : IsBlankLine(s) => \A i \in 1..Len(s) : s[i] \in Blank

\* the implemented scanner, with the code's four variables (0-based indices as in the Rust
\* source).  FixedCond = FALSE is the shipped line-keeping condition (defect F8).
\* one step of the scanner at 0-based index idx
ScanStep(b, idx, st, FixedCond) ==
    LET ch == b[idx + 1] IN
    IF ch = NL THEN
        LET keep == IF FixedCond THEN st.tstart < idx
                    ELSE st.start < idx /\ st.tstart + 1 < idx
        IN [lines  |-> IF keep THEN Append(st.lines, <<st.start, idx>>) ELSE st.lines,
            start  |-> idx + 1, end |-> idx + 1, tstart |-> idx + 1, trim |-> TRUE]
    ELSE IF st.trim /\ ch \in WsP THEN [st EXCEPT !.tstart = @ + 1]
    ELSE [st EXCEPT !.trim = FALSE]
\* the loop over idx0 .. Len(b) - 1 (a fold; ScanLoopRef is the same as a recursion)
ScanLoopV(b, idx0, st0, FixedCond) ==
    FoldL(LAMBDA st, i : ScanStep(b, i - 1, st, FixedCond), st0, SubSeq(Idx(b), idx0 + 1, Len(b)))
ScanLoop(b, idx0, st0, FixedCond) == Let1(b, LAMBDA x : ScanLoopV(x, idx0, st0, FixedCond))
RECURSIVE ScanLoopRef(_, _, _, _)
ScanLoopRef(b, idx, st, FixedCond) ==
    IF idx = Len(b) THEN st ELSE ScanLoopRef(b, idx + 1, ScanStep(b, idx, st, FixedCond), FixedCond)
ScannerV(b, FixedCond) ==
    LET st == ScanLoop(b, 0, [lines |-> <<>>, start |-> 0, end |-> 0, tstart |-> 0, trim |-> TRUE], FixedCond)
        ls == IF st.end < Len(b) /\ st.tstart < Len(b) THEN Append(st.lines, <<st.start, Len(b)>>) ELSE st.lines
    IN [i \in 1..Len(ls) |-> SubSeq(b, ls[i][1] + 1, ls[i][2])]

Scanner(b, FixedCond) == Let1(b, LAMBDA x : ScannerV(x, FixedCond))
\* ---- one line -> one entry ---------------------------------------------------------
CmdTable == << [name |-> <<64, 99, 119, 100>>, kind |-> "Cwd", rule |-> "req-raw"],                       \* @cwd
               [name |-> <<64, 115, 114, 99>>, kind |-> "Cwd", rule |-> "req-raw"],                       \* @src
               [name |-> <<64, 99, 100>>, kind |-> "Cwd", rule |-> "req-raw"],                            \* @cd
               [name |-> <<64, 101, 120, 101, 99>>, kind |-> "Exec", rule |-> "req-raw"],                 \* @exec
               [name |-> <<64, 117, 110, 101, 120, 101, 99>>, kind |-> "UnExec", rule |-> "req-raw"],     \* @unexec
               [name |-> <<64, 111, 112, 116, 105, 111, 110>>, kind |-> "PkgOpt", rule |-> "preserve"],   \* @option
               [name |-> <<64, 109, 111, 100, 101>>, kind |-> "Mode", rule |-> "opt-utf8"],               \* @mode
               [name |-> <<64, 111, 119, 110, 101, 114>>, kind |-> "Owner", rule |-> "opt-utf8"],         \* @owner
               [name |-> <<64, 103, 114, 111, 117, 112>>, kind |-> "Group", rule |-> "opt-utf8"],         \* @group
               [name |-> <<64, 99, 111, 109, 109, 101, 110, 116>>, kind |-> "Comment", rule |-> "opt-raw"], \* @comment
               [name |-> <<64, 105, 103, 110, 111, 114, 101>>, kind |-> "Ignore", rule |-> "none"],       \* @ignore
               [name |-> <<64, 110, 97, 109, 101>>, kind |-> "Name", rule |-> "req-utf8"],                \* @name
               [name |-> <<64, 112, 107, 103, 100, 101, 112>>, kind |-> "PkgDep", rule |-> "req-utf8"],   \* @pkgdep
               [name |-> <<64, 98, 108, 100, 100, 101, 112>>, kind |-> "BldDep", rule |-> "req-utf8"],    \* @blddep
               [name |-> <<64, 112, 107, 103, 99, 102, 108>>, kind |-> "PkgCfl", rule |-> "req-utf8"],    \* @pkgcfl
               [name |-> <<64, 112, 107, 103, 100, 105, 114>>, kind |-> "PkgDir", rule |-> "req-raw"],    \* @pkgdir
               [name |-> <<64, 100, 105, 114, 114, 109>>, kind |-> "DirRm", rule |-> "req-raw"],          \* @dirrm
               [name |-> <<64, 100, 105, 115, 112, 108, 97, 121>>, kind |-> "Display", rule |-> "req-raw"] >> \* @display
CmdTxt == <<"@cwd", "@src", "@cd", "@exec", "@unexec", "@option", "@mode", "@owner", "@group", "@comment", "@ignore",
            "@name", "@pkgdep", "@blddep", "@pkgcfl", "@pkgdir", "@dirrm", "@display">>
PlistLiteralsOK == \A i \in 1..Len(CmdTable) : CmdTable[i].name = Codes(CmdTxt[i])
LitPreserve == <<112, 114, 101, 115, 101, 114, 118, 101>>    \* "preserve"

CmdIndex(c) == LET S == {i \in 1..Len(CmdTable) : CmdTable[i].name = c} IN IF S = {} THEN 0 ELSE CHOOSE i \in S : TRUE

\* command text and argument of a line: the first SPACE splits; the argument loses only its
\* leading blanks; <<>> = no argument
CmdOf(line) == LET i == FirstPos(line, SP) IN IF i = 0 THEN line ELSE SubSeq(line, 1, i - 1)
ArgOf(line) == LET i == FirstPos(line, SP) IN
               IF i = 0 \/ i = 1 \/ i = Len(line) THEN <<>>
               ELSE LET a == TrimLeft(SubSeq(line, i, Len(line)), WsP) IN IF a = <<>> THEN <<>> ELSE <<a>>
\* "leading blanks" is unambiguous for this line
ArgJudged(line) == LET i == FirstPos(line, SP) IN
                   (i = 0 \/ i = 1 \/ i = Len(line)) \/
                   LET a == TrimLeft(SubSeq(line, i, Len(line)), Blank) IN a = <<>> \/ a[1] \notin Ambig

EntryParse(line) ==
    LET c == CmdOf(line)  a == ArgOf(line) IN
    IF c = <<>> \/ c[1] # AT THEN <<"File", line>>
    ELSE LET i == CmdIndex(c) IN
         IF i = 0 THEN <<"Err">>
         ELSE LET r == CmdTable[i].rule  k == CmdTable[i].kind IN
              CASE r = "req-raw"  -> IF a = <<>> THEN <<"Err">> ELSE <<k, a[1]>>
                [] r = "req-utf8" -> IF a = <<>> \/ ~ValidUtf8(a[1]) THEN <<"Err">> ELSE <<k, a[1]>>
                [] r = "opt-raw"  -> <<k, a>>
                [] r = "opt-utf8" -> IF a # <<>> /\ ~ValidUtf8(a[1]) THEN <<"Err">> ELSE <<k, a>>
                [] r = "none"     -> IF a = <<>> THEN <<k>> ELSE <<"Err">>
                [] r = "preserve" -> IF a = <<LitPreserve>> THEN <<k, LitPreserve>> ELSE <<"Err">>

\* Plist::from_bytes: <<"ok", entries>> or <<"err">>
ParsePlist(b) == LET ls == LinesRef(b)
                     es == [i \in 1..Len(ls) |-> EntryParse(ls[i])]
                 IN IF \E i \in 1..Len(es) : es[i] = <<"Err">> THEN <<"err">> ELSE <<"ok", es>>
PlistJudged(b) == LinesJudged(b) /\ \A l \in RangeOf(LinesRef(b)) : ArgJudged(l)

\* ---- queries (C15), stated from the property -------------------------------------------
IsFile(e) == e[1] = "File"
\* file entry i is dropped iff an @ignore lies between it and the preceding file entry (or the start)
Dropped(es, i) == \E j \in 1..(i - 1) : es[j][1] = "Ignore" /\ \A m \in (j + 1)..(i - 1) : ~IsFile(es[m])
LiveFile(es, i) == IsFile(es[i]) /\ ~Dropped(es, i)
FilesRef(es) == LET idx == SelectSeq([i \in 1..Len(es) |-> i], LAMBDA i : LiveFile(es, i)) IN [n \in 1..Len(idx) |-> es[idx[n]][2]]
CwdBefore(es, i) == LET S == {j \in 1..(i - 1) : es[j][1] = "Cwd"} IN IF S = {} THEN <<>> ELSE es[CHOOSE j \in S : \A m \in S : j >= m][2]
WithSlash(d) == IF d # <<>> /\ d[Len(d)] = SLASH THEN d ELSE Append(d, SLASH)
PrefixedRef(es) == LET idx == SelectSeq([i \in 1..Len(es) |-> i], LAMBDA i : LiveFile(es, i))
                   IN [n \in 1..Len(idx) |-> WithSlash(CwdBefore(es, idx[n])) \o es[idx[n]][2]]
InstallKinds   == {"Cwd", "Exec", "Mode", "Owner", "Group", "PkgDir"}
UninstallKinds == {"Cwd", "UnExec", "Mode", "Owner", "Group", "PkgDir", "DirRm"}
CmdsRef(es, kinds) == LET idx == SelectSeq([i \in 1..Len(es) |-> i], LAMBDA i : LiveFile(es, i) \/ es[i][1] \in kinds)
                      IN [n \in 1..Len(idx) |-> es[idx[n]]]
OfKind(es, k) == LET s == SelectSeq(es, LAMBDA e : e[1] = k) IN [n \in 1..Len(s) |-> s[n][2]]
FirstOfKind(es, k) == LET s == OfKind(es, k) IN IF s = <<>> THEN <<>> ELSE <<s[1]>>

\* the four file views as implemented: one pass with an "ignore next file" flag (and a prefix)
\* state <<ignore, prefix, acc>>
ViewStep(st, e, view) ==
    LET ignore == st[1]  prefix == st[2]  acc == st[3] IN
    IF e[1] = "Ignore" THEN <<TRUE, prefix, acc>>
    ELSE IF IsFile(e) THEN
         (IF ignore THEN <<FALSE, prefix, acc>>
          ELSE <<FALSE, prefix, Append(acc, IF view = "files" THEN e[2]
                                            ELSE IF view = "prefixed" THEN WithSlash(prefix) \o e[2] ELSE e)>>)
    ELSE IF e[1] = "Cwd" /\ view = "prefixed" THEN <<ignore, e[2], acc>>
    ELSE IF (view = "install" /\ e[1] \in InstallKinds) \/ (view = "uninstall" /\ e[1] \in UninstallKinds)
         THEN <<ignore, prefix, Append(acc, e)>>
    ELSE st
ViewLoop(es, i0, ignore, prefix, acc, view) ==
    Nth(FoldL(LAMBDA st, e : ViewStep(st, e, view), <<ignore, prefix, acc>>, SubSeq(es, i0, Len(es))), 3)
RECURSIVE ViewLoopRef(_, _, _, _)
ViewLoopRef(es, i, st, view) == IF i > Len(es) THEN st[3] ELSE ViewLoopRef(es, i + 1, ViewStep(st, es[i], view), view)
View(es, v) == ViewLoop(es, 1, FALSE, <<>>, <<>>, v)

Queries(es) == [files |-> FilesRef(es), prefixed |-> PrefixedRef(es),
                install |-> CmdsRef(es, InstallKinds), uninstall |-> CmdsRef(es, UninstallKinds),
                depends |-> OfKind(es, "PkgDep"), build_depends |-> OfKind(es, "BldDep"), conflicts |-> OfKind(es, "PkgCfl"),
                pkgdirs |-> OfKind(es, "PkgDir"), pkgrmdirs |-> OfKind(es, "DirRm"),
                pkgname |-> FirstOfKind(es, "Name"), display |-> FirstOfKind(es, "Display"),
                preserve |-> IF \E i \in 1..Len(es) : es[i][1] = "PkgOpt" THEN "T" ELSE "F"]

\* The same record through the implemented one-pass views (linear).  The declarative definitions
\* above are quadratic and worse in the number of entries (2 000 entries: minutes); MC_Plist checks
\* View = ...Ref on every entry sequence of its bounded domain and Tr_Plist on every recorded list
\* of at most QueriesRefMax entries, so longer lists are judged with QueriesByView.
QueriesRefMax == 150
QueriesByView(es) == [Queries(<<>>) EXCEPT !.files = View(es, "files"), !.prefixed = View(es, "prefixed"),
                                           !.install = View(es, "install"), !.uninstall = View(es, "uninstall"),
                                           !.depends = OfKind(es, "PkgDep"), !.build_depends = OfKind(es, "BldDep"),
                                           !.conflicts = OfKind(es, "PkgCfl"), !.pkgdirs = OfKind(es, "PkgDir"),
                                           !.pkgrmdirs = OfKind(es, "DirRm"), !.pkgname = FirstOfKind(es, "Name"),
                                           !.display = FirstOfKind(es, "Display"),
                                           !.preserve = IF \E i \in 1..Len(es) : es[i][1] = "PkgOpt" THEN "T" ELSE "F"]

\* an entry back to a line (for building inputs from entry sequences)
KindCmd(k) == CASE k = "Cwd" -> CmdTable[1].name [] k = "Exec" -> CmdTable[4].name [] k = "UnExec" -> CmdTable[5].name
                [] k = "PkgOpt" -> CmdTable[6].name [] k = "Mode" -> CmdTable[7].name [] k = "Owner" -> CmdTable[8].name
                [] k = "Group" -> CmdTable[9].name [] k = "Comment" -> CmdTable[10].name [] k = "Ignore" -> CmdTable[11].name
                [] k = "Name" -> CmdTable[12].name [] k = "PkgDep" -> CmdTable[13].name [] k = "BldDep" -> CmdTable[14].name
                [] k = "PkgCfl" -> CmdTable[15].name [] k = "PkgDir" -> CmdTable[16].name [] k = "DirRm" -> CmdTable[17].name
                [] k = "Display" -> CmdTable[18].name
OptKinds == {"Mode", "Owner", "Group", "Comment"}
LineOfEntry(e) == IF e[1] = "File" THEN e[2]
                  ELSE IF Len(e) = 1 THEN KindCmd(e[1])
                  ELSE IF e[1] \in OptKinds THEN (IF e[2] = <<>> THEN KindCmd(e[1]) ELSE KindCmd(e[1]) \o <<SP>> \o e[2][1])
                  ELSE KindCmd(e[1]) \o <<SP>> \o e[2]
=============================================================================
