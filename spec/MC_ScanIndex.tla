---------------------------- MODULE MC_ScanIndex ----------------------------
(***************************************************************************)
(* The reader loop over every sequence of <= MaxLines lines from 14 line   *)
(* kinds (two PKGNAMEs, the same scalar key with two values, list keys     *)
(* with 0-2 items, unknown key, blank, no '=', value containing '=', bad   *)
(* dependency, bad location, good location), with an I/O error injected at *)
(* every position.  One record per PKGNAME= line, fields only from the own *)
(* block, any failure fails the whole read.                                *)
(***************************************************************************)
EXTENDS ScanIndex, TLC, Json

CONSTANTS MaxLines
ASSUME ScanLiteralsOK

LineKinds == { Codes("PKGNAME=a-1"), Codes("PKGNAME=b-2nb1"), Codes("CATEGORIES=x"), Codes("  CATEGORIES= y z  "),
               Codes("MAINTAINER=m=n"), Codes("ALL_DEPENDS="), Codes("ALL_DEPENDS=a>=1:../../c/a  b-[0-9]*:c/b"),
               Codes("MULTI_VERSION=A=1 B=2"), Codes("SCAN_DEPENDS=/p/q"), Codes("UNKNOWN=u"), <<>>, Codes("no equals here"),
               Codes("ALL_DEPENDS=oops"), Codes("PKG_LOCATION=bad"), Codes("PKG_LOCATION=c/a"),
               Codes("PKG_LOCATION=c/.."), Codes("ALL_DEPENDS=b>=1:c/..") }

VARIABLES lines, s, errAt, errKind, phase
vars == <<lines, s, errAt, errKind, phase>>
Init == lines = <<>> /\ s = InitScan /\ errAt = 0 /\ errKind = "Other" /\ phase = "read"
Line == /\ phase = "read" /\ Len(lines) < MaxLines
        /\ \E l \in LineKinds : lines' = Append(lines, l) /\ s' = StepLine(s, l)
        /\ UNCHANGED <<errAt, errKind, phase>>
\* a hard error ends the read; Interrupted is retried: the reader carries on (here: to end-of-file)
IoError == /\ phase = "read" /\ errAt = 0 /\ errAt' = Len(lines) + 1
           /\ \E kd \in {"Other", "WouldBlock", "Interrupted"} :
                 /\ errKind' = kd
                 /\ s' = IF kd = "Interrupted" THEN StepEof(StepIoErrorKind(s, kd)) ELSE StepIoErrorKind(s, kd)
           /\ phase' = "end" /\ UNCHANGED lines
Eof == phase = "read" /\ s' = StepEof(s) /\ phase' = "end" /\ UNCHANGED <<lines, errAt, errKind>>
Next == Line \/ IoError \/ Eof
Spec == Init /\ [][Next]_vars

Result == IF s.st = "failed" THEN <<"err">> ELSE <<"ok", s.recs>>
\* the loop computes the declarative reading
LoopIsRef == /\ (phase = "end" /\ (errAt = 0 \/ errKind = "Interrupted")) => Result = ReadRef(lines)
             /\ BlocksOf(lines, 1, <<>>) = BlocksOfRef(lines, 1, <<>>)     \* fold = recursion
ErrorFails == (phase = "end" /\ errAt # 0 /\ errKind # "Interrupted") => Result = <<"err">>
\* one record per PKGNAME= line when the read succeeds
OnePerName == (phase = "end" /\ s.st = "done") =>
                Len(s.recs) = Cardinality({i \in 1..Len(lines) : StartsWith(TrimU(lines[i]), LitPkgnameEq)})
NoLeak == (phase = "end" /\ s.st = "done") =>
            \A i \in 1..Len(s.recs) : s.recs[i].scalars[5] \in {<<>>, <<<<120>>>>, <<Codes("y z")>>}

Emit == phase = "end" =>
          PrintT(<<"CASE", ToJson([op |-> "scanindex", in |-> [lines |-> lines, err_at |-> errAt, err_kind |-> errKind, err_mid |-> IF Len(lines) % 2 = 0 THEN "T" ELSE "F", final_nl |-> "T"],
                                   out |-> IF Result[1] = "err" THEN [err |-> "T"] ELSE [ok |-> Result[2]]])>>)
=============================================================================
