------------------------------ MODULE PkgName ------------------------------
(***************************************************************************)
(* PKGNAME decomposition (src/pkgname.rs, Summary::pkgbase/pkgversion, the *)
(* matcher's own split in Dewey::matches) - C18.                           *)
(***************************************************************************)
EXTENDS Pattern

\* PkgName::new: split at the last '-'
Split(s) == [base |-> PkgBase(s), ver |-> PkgVer(s)]
Rebuild(sp, s) == IF HasDash(s) THEN sp.base \o <<DASH>> \o sp.ver ELSE sp.base

LitNb == <<110, 98>>     \* "nb"
HasNbAnyCase(v) == \E i \in 1..(Len(v) - 1) : LowerSeq(SubSeq(v, i, i + 1)) = LitNb

\* length of the trailing digit run
RECURSIVE TrailDigits(_)
TrailDigits(v) == IF v # <<>> /\ v[Len(v)] \in Digit THEN 1 + TrailDigits(SubSeq(v, 1, Len(v) - 1)) ELSE 0
\* v ends in "nb" followed by one or more digits
EndsNbDigits(v) == LET d == TrailDigits(v) IN
                   d >= 1 /\ Len(v) >= d + 2 /\ SubSeq(v, Len(v) - d - 1, Len(v) - d) = LitNb
TrailNumber(v) == StripZeros(SubSeq(v, Len(v) - TrailDigits(v) + 1, Len(v)))

\* the statement fixes the reported revision for: no "nb" at all (in any case) -> none;
\* ending in nb<digits> -> that number.  <<>> = None, <<d>> = Some(number with digits d)
RevJudged(v) == ~HasNbAnyCase(v) \/ EndsNbDigits(v)
RevExpected(v) == IF EndsNbDigits(v) THEN <<TrailNumber(v)>> ELSE <<>>

\* Summary accessors: None when there is no '-' or the part is empty
SumBase(s) == IF HasDash(s) /\ NameBase(s) # <<>> THEN <<NameBase(s)>> ELSE <<>>
SumVer(s)  == IF HasDash(s) /\ NameVer(s) # <<>> THEN <<NameVer(s)>> ELSE <<>>
=============================================================================
