CONSTANT MaxLen = 2
SPECIFICATION Spec
INVARIANTS Transitive TwoBound
CHECK_DEADLOCK FALSE
