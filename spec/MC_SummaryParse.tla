-------------------------- MODULE MC_SummaryParse --------------------------
(***************************************************************************)
(* C08, complete over the real table: a canonical entry with all 23        *)
(* variables, then every text reachable by at most MaxFaults edits:        *)
(* remove a line (each required variable in turn), misspell a name three   *)
(* ways, replace an integer by a non-integer (or an unusual but valid      *)
(* integer), insert a line without '=' or an empty line at any position,   *)
(* repeat a variable with another value.  At every text: parsing succeeds  *)
(* iff no cause is present and a failure names a cause (on the spec), and  *)
(* one CASE line for the real parser.                                      *)
(***************************************************************************)
EXTENDS Summary, TLC, Json, SequencesExt

CONSTANTS MaxFaults

ASSUME TableOK

\* value texts: "v" followed by a letter per variable so that every value is distinguishable
ValOf(v, k) == IF VKind(v) = "I" THEN <<49, 48 + (v % 10), 48 + k>> ELSE <<118, 96 + v, EQ, 48 + k>>
BaseLines == Flatten([v \in Vars |->
                IF v = 6 THEN << VarTable[v].name \o <<EQ>> \o ValOf(v, 1), VarTable[v].name \o <<EQ>>,
                                 VarTable[v].name \o <<EQ>> \o ValOf(v, 2) >>
                ELSE << VarTable[v].name \o <<EQ>> \o ValOf(v, 1) >>])

VARIABLES lines, nf
Init == lines = BaseLines /\ nf = 0

NameOf(l) == LET i == FirstPos(l, EQ) IN IF i = 0 THEN l ELSE SubSeq(l, 1, i - 1)
RestOf(l) == LET i == FirstPos(l, EQ) IN IF i = 0 THEN <<>> ELSE SubSeq(l, i, Len(l))
IsIntLine(l) == LET v == VarByName(NameOf(l)) IN v # 0 /\ VKind(v) = "I"

RemAt(s, i) == SubSeq(s, 1, i - 1) \o SubSeq(s, i + 1, Len(s))
InsAt(s, i, x) == SubSeq(s, 1, i - 1) \o <<x>> \o SubSeq(s, i, Len(s))

Misspellings(nm) == { [nm EXCEPT ![1] = ToLower(nm[1])], Append(nm, 83), SubSeq(nm, 1, Len(nm) - 1),
                      [i \in 1..Len(nm) |-> ToLower(nm[i])], <<SP>> \o nm, Append(nm, SP) }
BadInts  == { <<>>, <<120>>, <<49, DOT, 53>>, <<SP, 49>>, <<49, SP>>, Codes("9223372036854775808"), Codes("-9223372036854775809"), <<DASH>>, <<49, 101, 51>> }
OddInts  == { <<PLUS, 53>>, <<DASH, 48>>, <<48, 48, 55>>, Codes("-9223372036854775808"), Codes("9223372036854775807") }

Edits ==
    { RemAt(lines, i) : i \in 1..Len(lines) }
    \cup UNION { { [lines EXCEPT ![i] = m \o RestOf(lines[i])] : m \in Misspellings(NameOf(lines[i])) } : i \in 1..Len(lines) }
    \cup UNION { IF IsIntLine(lines[i])
                 THEN { [lines EXCEPT ![i] = NameOf(lines[i]) \o <<EQ>> \o b] : b \in BadInts \cup OddInts }
                 ELSE {} : i \in 1..Len(lines) }
    \cup { InsAt(lines, i, x) : i \in 1..(Len(lines) + 1), x \in { <<71, 65, 82, 66>>, <<>> } }
    \cup UNION { { InsAt(lines, j, NameOf(lines[i]) \o <<EQ>> \o <<114, 101, 112>>) : j \in {i + 1, Len(lines) + 1, 1} }
                 : i \in {k \in 1..Len(lines) : ~IsIntLine(lines[k])} }

Next == nf < MaxFaults /\ nf' = nf + 1 /\ lines' \in Edits

Text == JoinTerm(lines, <<NL>>)
TF(b) == IF b THEN "T" ELSE "F"
ParseJson(t) == LET r == Parse(t) IN
                IF r[1] = "ok" THEN [ok |-> r[2], text |-> Render(r[2]), done |-> TF(Completed(r[2]))]
                ELSE [anyof |-> SetToSeq({[err |-> c] : c \in Causes(t)})]

CausesOK == LET r == Parse(Text) IN
            /\ (r[1] = "ok") = (Causes(Text) = {})
            /\ r[1] = "err" => <<r[2], r[3]>> \in Causes(Text)
            /\ ParseLines(Lines(Text), 1, Empty) = ParseLinesRef(Lines(Text), 1, Empty)     \* fold = recursion
\* accepted text: a value is everything after the first '=', repeats accumulate / last wins
AcceptedOK == LET r == Parse(Text) IN
              r[1] = "ok" =>
                \A v \in Vars :
                  LET mine == SelectSeq(lines, LAMBDA l : NameOf(l) = VarTable[v].name)
                      vals == [i \in 1..Len(mine) |-> SubSeq(mine[i], Len(VarTable[v].name) + 2, Len(mine[i]))]
                  IN IF mine = <<>> THEN r[2][v] = <<>>
                     ELSE IF VKind(v) = "A" THEN r[2][v] = <<vals>>
                     ELSE IF VKind(v) = "S" THEN r[2][v] = <<vals[Len(vals)]>>
                     ELSE r[2][v] = <<I64Print(I64Value(vals[Len(vals)]))>>
BaseRoundTrip == nf = 0 => Parse(Text)[1] = "ok" /\ Render(Parse(Text)[2]) = Text

Emit == PrintT(<<"CASE", ToJson([op |-> "sumparse", in |-> [text |-> Text], out |-> ParseJson(Text)])>>)
=============================================================================
