CONSTANT MaxLen = 2
SPECIFICATION Spec
INVARIANTS MachineIsRef MachineIsAlg PairLaws
PROPERTY Progress
CHECK_DEADLOCK FALSE
