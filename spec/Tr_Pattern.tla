----------------------------- MODULE Tr_Pattern -----------------------------
(***************************************************************************)
(* Implementation -> specification for C02, C04, C05, C06: validate        *)
(* recorded compile / match / best_match outcomes of the real code.        *)
(*  patmatch {p, ns} -> {ok, m[], dok, dm[]}   (dok/dm: the standalone      *)
(*           Dewey matcher, recorded for brace-free patterns only)         *)
(*  best     {p, a, b} -> {ok, ab, ba, ma, mb}                              *)
(* Patterns outside the judged subset of shell globs are skipped (only     *)
(* "returned normally" is required of them, which the shape test checks).  *)
(***************************************************************************)
EXTENDS Pattern, TLC, Json, IOUtils

Rec == ndJsonDeserialize(IOEnv.TRACE)
TF(b) == IF b THEN "T" ELSE "F"
Shape(o, keys) == keys \subseteq DOMAIN o

PatExpected(r, lb) ==
    LET p  == r.in.p
        ns == r.in.ns
        ok == CompileOk(p)
        m  == [i \in 1..Len(ns) |-> TF(ok /\ MatchL(p, ns[i], lb))]
    IN [ok |-> TF(ok), m |-> m, bm |-> m]      \* bm: best_match(n, n) is Some(n) iff n matches (BestSelfL)
DewExpected(r, lb) ==
    LET p  == r.in.p
        ns == r.in.ns
        d  == DeweyNew(p)
    IN [dok |-> TF(d.ok), dm |-> [i \in 1..Len(ns) |-> TF(d.ok /\ DeweyMatchesL(d, ns[i], lb))]]

PatObserved(r) == [ok |-> r.out.ok, m |-> r.out.m, bm |-> r.out.bm]
DewObserved(r) == [dok |-> r.out.dok, dm |-> r.out.dm]

InDomainNames(p, ns) == ~LongRun(p) /\ \A i \in 1..Len(ns) : ~LongRun(ns[i])
PatVerdict(r) ==
    IF ~Shape(r.out, {"ok", "m", "bm"}) THEN "bad"
    ELSE IF ~Judged(r.in.p) \/ ~InDomainNames(r.in.p, r.in.ns) THEN "ok"
    ELSE LET flat == ~HasAnyOf(r.in.p, {LBRACE, RBRACE})
             okD(lb) == ~flat \/ (Shape(r.out, {"dok", "dm"}) /\ DewObserved(r) = DewExpected(r, lb))
         IN IF PatObserved(r) = PatExpected(r, 0) /\ okD(0) THEN "ok"
            ELSE IF PatObserved(r) = PatExpected(r, 96) /\ okD(96) THEN "KF1"
            ELSE "bad"

Opt(x) == x      \* [] or [name], as recorded
BestExpected(r, lb) ==
    LET p == r.in.p IN
    IF ~CompileOk(p) THEN [ok |-> "F"]
    ELSE [ok |-> "T", ab |-> BestMatchL(p, r.in.a, r.in.b, lb), ba |-> BestMatchL(p, r.in.b, r.in.a, lb),
          ma |-> TF(MatchL(p, r.in.a, lb)), mb |-> TF(MatchL(p, r.in.b, lb))]
\* the property itself, on the observed result: argument order is irrelevant, the winner is
\* a matching candidate that no matching candidate beats
BestLawsHold(r, lb) ==
    r.out.ok = "T" =>
      /\ r.out.ab = r.out.ba
      /\ LET S == {r.in.a, r.in.b}
             B == BestSetL(r.in.p, S, lb)
         IN IF B = {} THEN r.out.ab = <<>> ELSE Len(r.out.ab) = 1 /\ r.out.ab[1] \in B

\* what C06 says whatever the versions are worth (digit runs beyond 18 digits saturate in the
\* code and are outside C01's domain): the argument order is irrelevant, the result is a matching
\* candidate, and there is one exactly when some candidate matches
BestLawsAnyVersion(r) ==
    r.out.ok = "T" =>
      /\ r.out.ab = r.out.ba
      /\ (r.out.ab = <<>>) = (r.out.ma = "F" /\ r.out.mb = "F")
      /\ r.out.ab # <<>> => \/ (r.out.ma = "T" /\ r.out.ab[1] = r.in.a)
                             \/ (r.out.mb = "T" /\ r.out.ab[1] = r.in.b)
BestVerdict(r) ==
    IF ~Shape(r.out, {"ok"}) THEN "bad"
    ELSE IF r.out.ok = "T" /\ ~Shape(r.out, {"ab", "ba", "ma", "mb"}) THEN "bad"
    ELSE IF ~BestLawsAnyVersion(r) THEN "bad"
    ELSE IF ~Judged(r.in.p) \/ ~InDomainNames(r.in.p, <<r.in.a, r.in.b>>) THEN "ok"
    ELSE IF r.out = BestExpected(r, 0) /\ BestLawsHold(r, 0) THEN "ok"
    ELSE IF r.out = BestExpected(r, 96) /\ BestLawsHold(r, 96) THEN "KF1"
    ELSE "bad"

\* the matrix patterns x names: the verdicts must not depend on the order in which the calls are
\* made (pattern-major pm / name-major nm; dp / dn the same through the standalone Dewey matcher)
MatExpected(r, lb) == [i \in 1..Len(r.in.ps) |-> [j \in 1..Len(r.in.ns) |->
                          TF(CompileOk(r.in.ps[i]) /\ MatchL(r.in.ps[i], r.in.ns[j], lb))]]
DewMatExpected(r, lb) == [i \in 1..Len(r.in.ps) |-> [j \in 1..Len(r.in.ns) |->
                          LET p == r.in.ps[i]  d == DeweyNew(p) IN
                          TF(~HasAnyOf(p, {LBRACE, RBRACE}) /\ d.ok /\ DeweyMatchesL(d, r.in.ns[j], lb))]]
MatOK(r, lb) == /\ r.out.pm = MatExpected(r, lb) /\ r.out.nm = MatExpected(r, lb)
                /\ r.out.dp = DewMatExpected(r, lb) /\ r.out.dn = DewMatExpected(r, lb)
                /\ r.out.ok = [i \in 1..Len(r.in.ps) |-> TF(CompileOk(r.in.ps[i]))]
MatVerdict(r) ==
    IF ~Shape(r.out, {"ok", "pm", "nm", "dp", "dn"}) THEN "bad"
    ELSE IF (\E i \in 1..Len(r.in.ps) : ~Judged(r.in.ps[i]) \/ LongRun(r.in.ps[i]))
            \/ (\E j \in 1..Len(r.in.ns) : LongRun(r.in.ns[j])) THEN "ok"
    ELSE IF MatOK(r, 0) THEN "ok" ELSE IF MatOK(r, 96) THEN "KF1" ELSE "bad"

Verdict(r) == CASE r.op = "patmatch" -> PatVerdict(r)
                [] r.op = "patmatrix" -> MatVerdict(r)
                [] r.op = "best" -> BestVerdict(r)
                [] OTHER -> "bad"

\* Records are independent observations: NB initial "block" states fan out to their
\* records in one step, so that all workers validate in parallel.
VARIABLES k, blk
NB == 48
Init == blk \in 0..(NB - 1) /\ k = 0 /\ Len(Rec) >= 0    \* forces the one-time load of the trace
Next == k = 0 /\ k' \in {i \in 1..Len(Rec) : i % NB = blk} /\ UNCHANGED blk
Check == k = 0 \/ LET v == Verdict(Rec[k]) IN v = "ok" \/ PrintT(<<"MISMATCH", k, v>>)
=============================================================================
