CONSTANTS MaxPieces = 6
  Mode = "pkgname"
INIT Init
NEXT Next
INVARIANTS Lossless RevIsTok SplitAgrees AccessorsAgree AcceptIsRef Spellings Emit
CHECK_DEADLOCK FALSE
