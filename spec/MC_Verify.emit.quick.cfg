CONSTANTS MaxComps = 2
  MaxRec = 2
  EmitCases = TRUE
  FewContents = TRUE
  Marker <- RealMarker
INIT Init
NEXT Next
INVARIANTS MachineIsRef ShortestWins Emit
CHECK_DEADLOCK FALSE
