------------------------------ MODULE Tr_Plist ------------------------------
(***************************************************************************)
(* Implementation -> specification for C14 / C15: validate recorded        *)
(* Plist::from_bytes outcomes: the entry sequence (verification hook), the *)
(* twelve queries, and that every kept line parsed alone gives the same    *)
(* entry.                                                                  *)
(***************************************************************************)
EXTENDS Plist, TLC, Json, IOUtils

Rec == ndJsonDeserialize(IOEnv.TRACE)

PlistVerdict(r) ==
    IF ~PlistJudged(r.in.bytes) THEN (IF DOMAIN r.out \cap {"ok", "err"} # {} THEN "ok" ELSE "bad")
    ELSE LET p == ParsePlist(r.in.bytes) IN
         IF p[1] = "err" THEN (IF r.out = [err |-> "T"] THEN "ok" ELSE "bad")
         ELSE IF Len(p[2]) > QueriesRefMax THEN (IF r.out = [ok |-> p[2], q |-> QueriesByView(p[2])] THEN "ok" ELSE "bad")
         ELSE IF r.out = [ok |-> p[2], q |-> Queries(p[2])]
                 \* the implemented view loops agree with the property's definitions on this list
                 /\ View(p[2], "files") = FilesRef(p[2]) /\ View(p[2], "prefixed") = PrefixedRef(p[2])
                 /\ View(p[2], "install") = CmdsRef(p[2], InstallKinds) /\ View(p[2], "uninstall") = CmdsRef(p[2], UninstallKinds)
              THEN "ok" ELSE "bad"
LineVerdict(r) == IF ~ArgJudged(r.in.bytes) \/ Has(r.in.bytes, NL) THEN "ok"
                  ELSE IF r.out = EntryParse(r.in.bytes) THEN "ok" ELSE "bad"
Verdict(r) == CASE r.op = "plist" -> PlistVerdict(r) [] r.op = "plistline" -> LineVerdict(r) [] OTHER -> "bad"

VARIABLES k, blk
NB == 48
Init == blk \in 0..(NB - 1) /\ k = 0 /\ Len(Rec) >= 0    \* forces the one-time load of the trace
Next == k = 0 /\ k' \in {i \in 1..Len(Rec) : i % NB = blk} /\ UNCHANGED blk
Check == k = 0 \/ LET v == Verdict(Rec[k]) IN v = "ok" \/ PrintT(<<"MISMATCH", k, v>>)
=============================================================================
