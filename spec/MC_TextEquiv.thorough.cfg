CONSTANTS MaxLen = 5
INIT Init
NEXT Next
INVARIANTS TextEquiv DeweyEquiv
CHECK_DEADLOCK FALSE
