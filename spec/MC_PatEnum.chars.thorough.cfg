CONSTANTS MaxPieces = 9
  Mode = "chars"
INIT Init
NEXT Next
INVARIANTS AlgIsCsh AlgIsRef CompileRule PlainIdentical DeweyIsGrammar DeweyAgrees TwoBound BestSelf Emit
CHECK_DEADLOCK FALSE
