CONSTANTS MaxPieces = 9
  Mode = "chars"
INIT Init
NEXT Next
INVARIANTS AlgIsCsh AlgIsRef CompileRule PlainIdentical DeweyIsGrammar DeweyAgrees TwoBound Emit
CHECK_DEADLOCK FALSE
