CONSTANTS MaxPieces = 4
  Mode = "depend"
INIT Init
NEXT Next
INVARIANTS Lossless RevIsTok SplitAgrees AccessorsAgree AcceptIsRef Spellings Emit
CHECK_DEADLOCK FALSE
