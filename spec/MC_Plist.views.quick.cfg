CONSTANTS MaxItems = 3
  Mode = "views"
  FixedCond = TRUE
  EmitMax = 3
INIT Init
NEXT Next
INVARIANTS ScanIsRef NewlineIrrelevant OnePerLine RenderParse ViewsAreRef SameFiles Emit
CHECK_DEADLOCK FALSE
