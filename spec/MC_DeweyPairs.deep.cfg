CONSTANTS MaxTok = 3
  Alphabet = "deep"
INIT Init
NEXT Next
INVARIANT Emit
CHECK_DEADLOCK FALSE
