CONSTANT Marker <- RealMarker
INIT Init
NEXT Next
CHECK_DEADLOCK FALSE
