------------------------------ MODULE MC_PkgDb ------------------------------
(***************************************************************************)
(* C20 on the specification and the cases for spec -> impl.                *)
(* Mode "db":   every database of <= MaxItems entries over 6 names         *)
(*   (one or several '-', nb revisions, trailing '-', leading '-'),        *)
(*   directory or stray file, every subset of the three mandatory files    *)
(*   plus optional ones.                                                   *)
(* Mode "meta": every history of <= MaxItems read_metadata calls over the  *)
(*   14 entries x 6 values: is_valid <=> the three are non-empty, integers *)
(*   that do not parse are errors, never panics.                           *)
(***************************************************************************)
EXTENDS PkgDb, TLC, Json, SequencesExt

CONSTANTS MaxItems, Mode
ASSUME MetaLiteralsOK /\ Bijection

Names == { Codes("a-1"), Codes("a-b-1.0nb2"), Codes("x-"), Codes("-1"), Codes("py39-foo-2"), Codes("a-2") }
\* <<files present, those of them that are zero-length>>
FileSets == { <<{}, {}>>, <<{3}, {}>>, <<{4, 6}, {}>>, <<{3, 4}, {}>>, <<{3, 6}, {}>>, <<{3, 4, 6}, {}>>, <<{3, 4, 6, 1, 14}, {}>>,
              <<{1, 2, 5}, {}>>, <<{3, 4, 6}, {4}>>, <<{3, 4, 6, 13}, {3, 4, 6, 13}>> }
Values == { <<>>, <<120>>, <<SP, 120, NL>>, <<97, NL, 98, NL>>, <<52, 50>>, <<SP, DASH, 55, NL>>, <<120, 49>> }

VARIABLES cfg, st, hist, n, root
Init == cfg = <<>> /\ st = MetaInit /\ hist = <<>> /\ n = 0 /\ root \in (IF Mode = "db" THEN {"dir", "file", "missing"} ELSE {"dir"})
\* one of the names may be non-UTF-8 on disk ("a-2" + 0xFF)
AddEntry == \E nm \in Names, d \in BOOLEAN, fs \in FileSets :
              /\ root = "dir"
              /\ \A i \in 1..Len(cfg) : cfg[i].name # nm
              /\ cfg' = Append(cfg, [name |-> nm, dir |-> d, files |-> IF d THEN fs[1] ELSE {}, empty |-> IF d THEN fs[2] ELSE {},
                                     utf8 |-> nm # Codes("a-2")])
\* each entry is read at most once in an emitted history (whether a second read appends or
\* replaces is not fixed by C20; the machine appends, as the code does)
Call == \E i \in {j \in 1..NM : \A h \in 1..Len(hist) : hist[h].e # j}, v \in Values :
          LET r == ReadMetadata(st, i, v) IN
          /\ st' = r[1]
          /\ hist' = Append(hist, [e |-> i, v |-> v, ret |-> r[2], st |-> r[1], valid |-> IF IsValid(r[1]) THEN "T" ELSE "F"])
Next == /\ n < MaxItems /\ n' = n + 1 /\ UNCHANGED root
        /\ IF Mode = "db" THEN AddEntry /\ UNCHANGED <<st, hist>> ELSE Call /\ UNCHANGED cfg
View == <<cfg, st, n, root>>

EachOnce == Mode = "db" => Cardinality(Listed(cfg)) + ItemErrors(cfg) = Cardinality({i \in 1..Len(cfg) : ValidPkg(cfg[i])})
SplitOK  == Mode = "db" => \A r \in Listed(cfg) : HasDash(r.pkgname) => r.base \o <<DASH>> \o r.version = r.pkgname
ValidRule == IsValid(st) = (st[3] # <<>> /\ st[4] # <<>> /\ st[6] # <<>>)

Emit == IF Mode = "db"
        THEN PrintT(<<"CASE", ToJson([op |-> "pkgdb",
                        in |-> [root |-> root,
                                entries |-> [i \in 1..Len(cfg) |-> [name |-> cfg[i].name, dir |-> IF cfg[i].dir THEN "T" ELSE "F",
                                                                       files |-> SetToSeq(cfg[i].files), empty |-> SetToSeq(cfg[i].empty),
                                                                       raw |-> IF cfg[i].utf8 THEN "F" ELSE "T"]]],
                        out |-> [open |-> OpenOutcome(root), listed |-> SetToSeq(DbListed(root, cfg)), errors |-> DbErrors(root, cfg)]])>>)
        ELSE n = MaxItems => PrintT(<<"CASE", ToJson([op |-> "metahist",
                        in |-> [calls |-> [i \in 1..Len(hist) |-> <<hist[i].e, hist[i].v>>]],
                        out |-> [steps |-> [i \in 1..Len(hist) |-> [ret |-> hist[i].ret, st |-> hist[i].st, valid |-> hist[i].valid]]]])>>)
=============================================================================
