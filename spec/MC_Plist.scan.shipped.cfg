CONSTANTS MaxItems = 7
  Mode = "scan"
  FixedCond = FALSE
  EmitMax = 6
INIT Init
NEXT Next
INVARIANTS ScanIsRef NewlineIrrelevant OnePerLine RenderParse ViewsAreRef SameFiles Emit
CHECK_DEADLOCK FALSE
