-------------------------- MODULE MC_SummaryStream --------------------------
(***************************************************************************)
(* Every stream of at most MaxEntries records over an abstract byte        *)
(* alphabet (a = ordinary text, x = text that makes an entry malformed,    *)
(* newline, the two bytes of a two-byte character, an invalid byte), and   *)
(* EVERY partition of it into consecutive writes (Write(k) delivers the    *)
(* next k bytes).  Checks that each step of the implemented algorithm is   *)
(* allowed by the property, and the final conditions.  Behaviours are      *)
(* emitted for replay on the real SummaryStream with the abstract bytes    *)
(* mapped to real pkg_summary text by Concrete (a table of this spec).     *)
(***************************************************************************)
EXTENDS SummaryStream, TLC, Json

CONSTANTS MaxEntries, Fixed, EmitHist

A == 97   X == 120   C3 == 195   A9 == 169   BAD == 255    \* BAD: a byte that is never valid UTF-8
RecSet == { <<A>>, <<A, C3, A9>>, <<A, NL, A>>, <<X>>, <<A, BAD>>, <<C3, A9>>, <<A, NL, X>> }

VARIABLES stream, phase, pos, buf, ents, failed, okstep, hist
vars == <<stream, phase, pos, buf, ents, failed, okstep, hist>>

Init == /\ stream = <<>> /\ phase = "build" /\ pos = 0 /\ buf = <<>> /\ ents = <<>>
        /\ failed = FALSE /\ okstep = TRUE /\ hist = <<>>

NRecs == Len(SplitSep(stream)[1])
AddRec == /\ phase = "build" /\ NRecs < MaxEntries
          /\ \E r \in RecSet : stream' = stream \o r \o Sep
          /\ UNCHANGED <<phase, pos, buf, ents, failed, okstep, hist>>
\* a stream may also end in an unfinished record
AddTail == /\ phase = "build" /\ NRecs >= 1 /\ NRecs < MaxEntries
           /\ \E r \in {<<A>>, <<A, C3>>, <<A, NL>>} : stream' = stream \o r
           /\ phase' = "write" /\ UNCHANGED <<pos, buf, ents, failed, okstep, hist>>
Start == /\ phase = "build" /\ NRecs >= 1 /\ phase' = "write"
         /\ UNCHANGED <<stream, pos, buf, ents, failed, okstep, hist>>

Write(k) ==
    /\ phase = "write" /\ ~failed /\ pos + k <= Len(stream)
    /\ LET chunk == SubSeq(stream, pos + 1, pos + k)
           r     == ImplWrite(buf, ents, chunk, Fixed)
       IN /\ buf' = r.buf /\ ents' = r.ents
          /\ failed' = (r.ret[1] = "err")
          /\ okstep' = Allowed(stream, pos, Len(ents), k, r.ret, Len(r.ents))
          /\ hist' = IF EmitHist THEN Append(hist, chunk) ELSE hist
    /\ pos' = pos + k
    /\ UNCHANGED <<stream, phase>>
Finish == /\ phase = "write" /\ (failed \/ pos = Len(stream)) /\ phase' = "done"
          /\ UNCHANGED <<stream, pos, buf, ents, failed, okstep, hist>>

Next == AddRec \/ AddTail \/ Start \/ (\E k \in 1..16 : Write(k)) \/ Finish
Spec == Init /\ [][Next]_vars
View == <<stream, phase, pos, buf, ents, failed, okstep>>

McValid(rec) == rec # <<>> /\ rec[1] = A /\ ~Has(rec, X)

\* refinement: every implemented step is one the property allows
StepAllowed == okstep
\* the collected entries are always the well-formed prefix of the stream's records
PrefixOK == LET all == SplitSep(stream)[1] IN /\ Len(ents) <= Len(all) /\ ents = SubSeq(all, 1, Len(ents))
                                              /\ SplitSep(stream) = SplitSepRef(stream)      \* fold = recursion
FinalInv == phase = "done" => FinalOK(stream, Len(ents), failed)
\* on a well-formed complete stream nothing is left in the buffer at the end
Drained == (phase = "done" /\ ~failed /\ FirstBad(SplitSep(stream)[1]) = 0 /\ SplitSep(stream)[2] = <<>>) => buf = <<>>

(***************************************************************************)
(* Abstract -> real bytes.  An 'a' that starts a record is a complete      *)
(* 11-variable entry whose last line is SUPERSEDES=s; an 'a' after a       *)
(* newline inside a record is a further SUPERSEDES line; 'x' is a line     *)
(* without '='.                                                            *)
(***************************************************************************)
Body == Codes("BUILD_DATE=d") \o <<NL>> \o Codes("CATEGORIES=c") \o <<NL>> \o Codes("COMMENT=a=b") \o <<NL>>
        \o Codes("DESCRIPTION=") \o <<NL>> \o Codes("DESCRIPTION=x") \o <<NL>> \o Codes("MACHINE_ARCH=m") \o <<NL>>
        \o Codes("OPSYS=o") \o <<NL>> \o Codes("OS_VERSION=1") \o <<NL>> \o Codes("PKGNAME=p-1") \o <<NL>>
        \o Codes("PKGPATH=c/p") \o <<NL>> \o Codes("PKGTOOLS_VERSION=2") \o <<NL>> \o Codes("SIZE_PKG=-7") \o <<NL>>
        \o Codes("SUPERSEDES=s")
More == Codes("SUPERSEDES=t")
Foo  == Codes("FOO")
\* map a chunk that starts at absolute position p (0-based) of the stream
RECURSIVE ConcreteFrom(_, _, _)
ConcreteFrom(s, i, j) ==          \* bytes i..j of stream s
    IF i > j THEN <<>>
    ELSE LET c == s[i]
             startsRecord == i = 1 \/ (i > 2 /\ s[i - 1] = NL /\ s[i - 2] = NL)
             m == IF c = A THEN (IF startsRecord THEN Body ELSE More)
                  ELSE IF c = X THEN Foo ELSE <<c>>
         IN m \o ConcreteFrom(s, i + 1, j)
ChunkBounds == [i \in 1..Len(hist) |-> LET RECURSIVE Off(_)
                                           Off(n) == IF n = 0 THEN 0 ELSE Off(n - 1) + Len(hist[n])
                                       IN <<Off(i - 1) + 1, Off(i)>>]
Emit == (EmitHist /\ phase = "done") =>
          PrintT(<<"CASE", ToJson([op |-> "stream",
                    in |-> [chunks |-> [i \in 1..Len(hist) |-> ConcreteFrom(stream, ChunkBounds[i][1], ChunkBounds[i][2])]]])>>)
=============================================================================
