CONSTANTS MaxItems = 9
  Mode = "scan"
  FixedCond = TRUE
  EmitMax = 7
INIT Init
NEXT Next
INVARIANTS ScanIsRef NewlineIrrelevant OnePerLine RenderParse ViewsAreRef SameFiles Emit
CHECK_DEADLOCK FALSE
