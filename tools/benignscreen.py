#!/usr/bin/env python3
"""tools/benignscreen.py <repo-worktree> ids...

The opposite of tools/seedtest.py: for every HARMLESS change under /verif/benign/<id>/ (patch.diff +
meta.json; a refactoring, or a change of behaviour the property leaves open, written by an
independent sub-agent that saw only the property text) apply it to <repo-worktree> - the repository
itself (/repo) or a scratch worktree that this copy of the machinery is bound to through
harness/Cargo.toml - confirm that the existing test suite still passes, run the quick check of every
property anchored in the files the patch touches, and expect exit 0 everywhere.  Any VIOLATION is a
false alarm of the machinery (or a change that is not harmless after all: decided by hand).
Appends to benign/RESULTS.json (only when run from /verif)."""
import json, os, re, subprocess, sys, time
V = os.path.dirname(os.path.dirname(os.path.abspath(__file__)))
M = sys.argv[1]
ids = sys.argv[2:]
BYFILE = {
    "dewey.rs": ["C01", "C02", "C03", "C06", "C17", "C18"], "pattern.rs": ["C02", "C04", "C05", "C06", "C17"],
    "summary.rs": ["C07", "C08", "C09", "C17", "C18"], "distinfo.rs": ["C10", "C11", "C12", "C17"],
    "digest.rs": ["C12", "C13", "C17"], "plist.rs": ["C14", "C15", "C17"], "scanindex.rs": ["C16", "C17"],
    "pkgpath.rs": ["C19", "C16", "C17"], "depend.rs": ["C19", "C16", "C17"], "pkgname.rs": ["C18", "C06", "C17"],
    "pkgdb.rs": ["C20", "C17"], "metadata.rs": ["C20", "C17"], "lib.rs": [],
}
env = dict(os.environ)
respath = os.path.join("/verif/benign", "RESULTS.json")
results = json.load(open(respath)) if (V == "/verif" and os.path.exists(respath)) else {}
for i in ids:
    d = os.path.join("/verif/benign", i)
    meta = json.load(open(os.path.join(d, "meta.json")))
    patch = open(os.path.join(d, "patch.diff")).read()
    files = sorted(set(re.findall(r"^\+\+\+ b/src/(\S+)", patch, re.M)))
    props = [meta["property"]]
    for f in files:
        for p in BYFILE.get(f, []):
            if p not in props:
                props.append(p)
    # BENIGN_MAX_PROPS=n: the property the change was written against and the first n-1 others
    if os.environ.get("BENIGN_MAX_PROPS"):
        props = props[:int(os.environ["BENIGN_MAX_PROPS"])]
    subprocess.run(["git", "-C", M, "checkout", "--", "."], check=True)
    r = subprocess.run(["git", "-C", M, "apply", os.path.join(d, "patch.diff")], capture_output=True, text=True)
    if r.returncode != 0:
        print(i, "patch does not apply", r.stderr[:200]); continue
    try:
        t = subprocess.run("cargo test --workspace --no-fail-fast --offline 2>&1", cwd=M, shell=True, capture_output=True, text=True)
        lines = [l for l in t.stdout.splitlines() if l.startswith("test result:")]
        passed = sum(int(l.split()[3]) for l in lines); failed = sum(int(l.split()[5]) for l in lines)
        warn = "warning:" in t.stdout
        out = {}
        for p in props:
            t0 = time.time()
            c = subprocess.run([os.path.join(V, "bin", "check"), p, "--tier", "quick"], capture_output=True, text=True, cwd=V, env=env)
            viol = [l for l in c.stdout.splitlines() if l.startswith("VIOLATION")]
            out[p] = {"exit": c.returncode, "violation_lines": len(viol), "wall_s": round(time.time() - t0, 1)}
            if c.returncode != 0:
                print(i, p, "ALARM exit=%d" % c.returncode, viol[:2], flush=True)
                if c.returncode == 2: print(c.stdout[-600:], c.stderr[-600:])
        results[i] = {"property": meta["property"], "files": files, "suite": {"passed": passed, "failed": failed, "warnings": warn},
                      "checks": out, "silent": all(o["exit"] == 0 for o in out.values())}
        print(i, "SILENT" if results[i]["silent"] else "ALARM", "suite %d/%d" % (passed, failed), {p: o["exit"] for p, o in out.items()}, flush=True)
    finally:
        subprocess.run(["git", "-C", M, "checkout", "--", "."], check=True)
if V == "/verif":
    json.dump(results, open(respath, "w"), indent=1, sort_keys=True)
print("alarms:", [i for i in ids if i in results and not results[i]["silent"]])
