#!/usr/bin/env python3
"""tools/confirm_seed.py <worktree> <property> <k> <seed-id> "<needs>"
Confirm a seeded change delivered in <worktree>/seeded_out/{patch<k>.diff,demo<k>.rs,note<k>.txt}:
(a) demo passes on unmodified HEAD, (b) existing suite passes with the patch, (c) demo fails with the patch.
On success copy it to /verif/seeded/<seed-id>/ with meta.json."""
import json, os, shutil, subprocess, sys
wt, prop, k, sid, needs = sys.argv[1:6]
so = os.path.join(wt, "seeded_out")
patch, demo, note = [os.path.join(so, f % k) for f in ("patch%s.diff", "demo%s.rs", "note%s.txt")]
def run(cmd):
    return subprocess.run(cmd, cwd=wt, shell=True, capture_output=True, text=True)
def suite_ok():
    r = run("cargo test --workspace --no-fail-fast --offline 2>&1")
    lines = [l for l in r.stdout.splitlines() if l.startswith("test result:")]
    passed = sum(int(l.split()[3]) for l in lines)
    failed = sum(int(l.split()[5]) for l in lines)
    return r.returncode == 0 and failed == 0, passed, failed
run("git checkout -- . && rm -f tests/demo_seed.rs")
assert run("git status --porcelain --untracked-files=no").stdout.strip() == ""
shutil.copy(demo, os.path.join(wt, "tests", "demo_seed.rs"))
a = run("cargo test --offline --test demo_seed 2>&1")
res = {"a_demo_passes_on_head": a.returncode == 0}
os.remove(os.path.join(wt, "tests", "demo_seed.rs"))
ap = run("git apply " + patch)
res["patch_applies"] = ap.returncode == 0
ok, passed, failed = suite_ok()
res["b_suite_passes_with_patch"] = ok
res["b_passed"] = passed
shutil.copy(demo, os.path.join(wt, "tests", "demo_seed.rs"))
c = run("cargo test --offline --test demo_seed 2>&1")
res["c_demo_fails_with_patch"] = c.returncode != 0
os.remove(os.path.join(wt, "tests", "demo_seed.rs"))
run("git checkout -- .")
good = all(res[x] for x in ("a_demo_passes_on_head", "patch_applies", "b_suite_passes_with_patch", "c_demo_fails_with_patch")) and passed >= 139
print(sid, "CONFIRMED" if good else "REJECTED", res)
if good:
    d = os.path.join("/verif/seeded", sid)
    os.makedirs(d, exist_ok=True)
    shutil.copy(patch, os.path.join(d, "patch.diff"))
    shutil.copy(demo, os.path.join(d, "demo.rs"))
    shutil.copy(note, os.path.join(d, "note.txt"))
    json.dump({"id": sid, "property": prop, "needs_to_manifest": needs, "origin": "independent sub-agent given only the property text and a scratch worktree",
               "confirmed": res,
               "ran": ["demo on unmodified HEAD: cargo test --offline --test demo_seed (passes)",
                       "git apply patch.diff; cargo test --workspace --no-fail-fast --offline (%d tests pass, 0 fail)" % passed,
                       "with the patch: cargo test --offline --test demo_seed (fails)"]},
              open(os.path.join(d, "meta.json"), "w"), indent=1)
sys.exit(0 if good else 1)
