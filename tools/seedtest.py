#!/usr/bin/env python3
"""tools/seedtest.py [ids...] [--tier quick|thorough] [--all-props]

For every seeded change under /verif/seeded/<id>/ (patch.diff + meta.json): apply it to /repo,
run the check of the property it breaks (meta.json "property"), expect exit 1 with a VIOLATION
line, and undo it (git checkout).  Writes seeded/RESULTS.json.  /repo is left clean."""
import json, os, subprocess, sys, time
V = "/verif"
ids = [a for a in sys.argv[1:] if not a.startswith("--")]
tier = "quick"
if "--tier" in sys.argv:
    tier = sys.argv[sys.argv.index("--tier") + 1]
    ids = [i for i in ids if i != tier]
root = os.path.join(V, "seeded")
if not ids:
    ids = sorted(d for d in os.listdir(root) if os.path.isdir(os.path.join(root, d)))
respath = os.path.join(root, "RESULTS.json")
results = json.load(open(respath)) if os.path.exists(respath) else {}
assert subprocess.run(["git", "-C", "/repo", "status", "--porcelain", "--untracked-files=no"], capture_output=True, text=True).stdout.strip() == "", "/repo is not clean"
for i in ids:
    d = os.path.join(root, i)
    meta = json.load(open(os.path.join(d, "meta.json")))
    props = [meta["property"]] + meta.get("also_check", [])
    r = subprocess.run(["git", "-C", "/repo", "apply", os.path.join(d, "patch.diff")], capture_output=True, text=True)
    if r.returncode != 0:
        results[i] = {"error": "patch does not apply: " + r.stderr[:200]}
        continue
    try:
        out = {}
        for p in props:
            t0 = time.time()
            c = subprocess.run([os.path.join(V, "bin", "check"), p, "--tier", tier], capture_output=True, text=True, cwd=V)
            viol = [l for l in c.stdout.splitlines() if l.startswith("VIOLATION")]
            out[p] = {"exit": c.returncode, "violation_lines": len(viol), "wall_s": round(time.time() - t0, 1)}
        results[i] = {"property": meta["property"], "tier": tier, "checks": out,
                      "detected": out[meta["property"]]["exit"] == 1 and out[meta["property"]]["violation_lines"] > 0}
        print(i, results[i]["detected"], out, flush=True)
    finally:
        subprocess.run(["git", "-C", "/repo", "checkout", "--", "."], check=True)
json.dump(results, open(respath, "w"), indent=1, sort_keys=True)
missed = [i for i in ids if not results.get(i, {}).get("detected")]
print("detected %d / %d; missed: %s" % (len(ids) - len(missed), len(ids), missed))
