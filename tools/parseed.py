#!/usr/bin/env python3
"""tools/parseed.py [--lanes N] [--tier quick|thorough] [--dir seeded|benign] [--only-missing] [ids...]

Run tools/seedtest.py over many seeded changes in parallel without ever touching /repo: every lane
gets a private copy of /repo (sources only, no build output) and of /verif (with the harness build
cache) under /tmp/verif_lanes/<k>/, and runs in its own mount namespace (`unshare -m`) in which the
copies are bind-mounted over /repo and /verif - so the checks run exactly as registered
(`bin/check <ID>` in /verif against /repo) while /repo itself stays on the unchanged tree.  The
lanes' results are merged into <dir>/RESULTS.json; the scratch copies are removed at the end.

For benign changes (--dir benign) "detected" must be false for every entry."""
import json, os, shutil, subprocess, sys, time
V = "/verif"
args = sys.argv[1:]
def opt(name, default):
    if name in args:
        i = args.index(name); v = args[i + 1]; del args[i:i + 2]; return v
    return default
lanes = int(opt("--lanes", "4"))
tier = opt("--tier", "quick")
sub = opt("--dir", "seeded")
workers = opt("--workers", "4")
xmx = opt("--xmx", "6g")
base = opt("--base", "/tmp/verif_lanes")
only_missing = "--only-missing" in args
if only_missing: args.remove("--only-missing")
root = os.path.join(V, sub)
ids = args or sorted(d for d in os.listdir(root) if os.path.isdir(os.path.join(root, d)))
respath = os.path.join(root, "RESULTS.json")
results = json.load(open(respath)) if os.path.exists(respath) else {}
if only_missing:
    ids = [i for i in ids if i not in results or "error" in results[i]]
if not ids:
    print("nothing to do"); sys.exit(0)
lanes = min(lanes, len(ids))
shutil.rmtree(base, ignore_errors=True)
# interleave so that every lane gets a mix of properties (slow and fast checks)
parts = [ids[k::lanes] for k in range(lanes)]
procs = []
t0 = time.time()
for k, part in enumerate(parts):
    d = os.path.join(base, str(k))
    os.makedirs(d)
    subprocess.run(["rsync", "-a", "--exclude", "target", "/repo/", d + "/repo/"], check=True)
    subprocess.run(["rsync", "-a", "--exclude", "work", "--exclude", ".git", V + "/", d + "/verif/"], check=True)
    rp = os.path.join(d, "verif", sub, "RESULTS.json")
    if os.path.exists(rp): os.remove(rp)
    tool = ("tools/benignscreen.py /repo" if sub == "benign" else "tools/seedtest.py --tier " + tier)
    script = ("mount --bind %s/repo /repo && mount --bind %s/verif /verif && cd /verif && "
              "VERIF_WORKERS=%s VERIF_XMX=%s python3 %s %s" % (d, d, workers, xmx, tool, " ".join(part)))
    log = open(os.path.join(base, "lane%d.log" % k), "w")
    procs.append((k, subprocess.Popen(["unshare", "-m", "sh", "-c", script], stdout=log, stderr=subprocess.STDOUT)))
for k, p in procs:
    p.wait()
    rp = os.path.join(base, str(k), "verif", sub, "RESULTS.json")
    if os.path.exists(rp):
        results.update(json.load(open(rp)))
    else:
        print("lane %d produced no results; see %s/lane%d.log" % (k, base, k))
        print(open(os.path.join(base, "lane%d.log" % k)).read()[-2000:])
json.dump(results, open(respath, "w"), indent=1, sort_keys=True)
for k in range(lanes):
    shutil.rmtree(os.path.join(base, str(k)), ignore_errors=True)
want = sub != "benign"
bad = [i for i in ids if (not results.get(i, {}).get("detected") if want else not results.get(i, {}).get("silent"))]
print("%s: %d run in %.0fs on %d lanes; %s: %s" % (sub, len(ids), time.time() - t0, lanes,
      "missed" if want else "false alarms", bad))
