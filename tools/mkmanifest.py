#!/usr/bin/env python3
"""Regenerate /verif/MANIFEST.json from lib/manifest_data.py (claimed checks) and properties.jsonl."""
import json, os, sys
V = os.path.dirname(os.path.dirname(os.path.abspath(__file__)))
sys.path.insert(0, os.path.join(V, "lib"))
import manifest_data as md

ids = [json.loads(l)["id"] for l in open(os.path.join(V, "properties.jsonl"))]
checks = []
for pid in ids:
    if pid not in md.CHECKS:
        continue
    c = md.CHECKS[pid]
    checks.append({
        "property_id": pid,
        "quick_cmd": "bin/check %s --tier quick" % pid,
        "thorough_cmd": "bin/check %s --tier thorough" % pid,
        "evidence_file": "/verif/evidence/%s.json" % pid,
        "replay_cmd_template": "bin/check %s --replay {path}" % pid,
        "engine": "tla-conformance",
        "level_claimed": {"category": "model_checking", "text": c["text"], "design_ref": c["design_ref"]},
        "level_note": c["note"],
        "technique": c["technique"],
    })
na = [{"property_id": p, "reason": md.NOT_APPLICABLE.get(p, "check not built yet in this round (in progress)")}
      for p in ids if p not in md.CHECKS]
m = {
    "version": 1,
    "setup_cmd": "bin/setup",
    "hooks": md.HOOKS,
    "engines": [{"name": "tla-conformance", "path": "/verif",
                 "serves_properties": [p for p in ids if p in md.CHECKS],
                 "kind_free_text": "explicit TLA+ specification (spec/*.tla) model-checked with TLC; bound to the code by replaying TLC-emitted cases/behaviours into the real library and by validating traces recorded from the real library against the specification (harness/, bin/check)"}],
    "checks": checks,
    "not_applicable": na,
    "notes": md.NOTES,
}
json.dump(m, open(os.path.join(V, "MANIFEST.json"), "w"), indent=1)
print("wrote MANIFEST.json: %d checks, %d not claimed" % (len(checks), len(na)))
