#!/usr/bin/env python3
"""Regenerate DESIGN.md section 12 from seeded/*/meta.json, seeded/RESULTS.json, selftest/RESULTS.json."""
import json, os, sys
root = '/verif/seeded'
res = json.load(open(os.path.join(root, 'RESULTS.json')))
rows = []
ids = sorted(d for d in os.listdir(root) if os.path.isdir(os.path.join(root, d)))
for sid in ids:
    m = json.load(open(os.path.join(root, sid, 'meta.json')))
    r = res.get(sid, {})
    needs = ' '.join(m['needs_to_manifest'].replace('|', '/').split())
    if len(needs) > 330:
        needs = needs[:327] + '...'
    rows.append('| %s | %s | %s | %s |' % (sid, m['property'], needs,
                'caught by `bin/check %s` (quick)' % m['property'] if r.get('detected')
                else ('not judged: differs from HEAD only where the statement is ambiguous (see meta.json)' if m.get('unjudged_region')
                      else 'out of reach (11.5c): ' + m['out_of_reach'][:90] if m.get('out_of_reach') else ('not run' if not r else 'NOT caught'))))
st = json.load(open('/verif/selftest/RESULTS.json'))
sys.path.insert(0, '/verif/selftest')
from mutants import MUTANTS
srows = []
for mid, prop, f, old, new in MUTANTS:
    r = st.get(mid, {})
    status = 'caught by `bin/check %s` (quick)' % prop if r.get('detected') else ('already caught by the 57 baseline tests (not a candidate)' if 'skipped' in r else 'NOT caught')
    srows.append('| %s | %s | %s | %s |' % (mid, prop, f, status))
ndet = sum(1 for i in ids if res.get(i, {}).get('detected'))
nunj = sum(1 for i in ids if json.load(open(os.path.join(root, i, 'meta.json'))).get('unjudged_region'))
# harmless changes (benign/)
broot = '/verif/benign'
bres = json.load(open(os.path.join(broot, 'RESULTS.json'))) if os.path.exists(os.path.join(broot, 'RESULTS.json')) else {}
bids = sorted(d for d in os.listdir(broot) if os.path.isdir(os.path.join(broot, d)))
brows = []
for bid in bids:
    m = json.load(open(os.path.join(broot, bid, 'meta.json')))
    r = bres.get(bid, {})
    if not r:
        status = 'not run'
    elif r.get('silent'):
        status = 'silent: ' + ' '.join(sorted(r['checks']))
    else:
        status = 'ALARM: ' + ' '.join(p for p, o in sorted(r['checks'].items()) if o['exit'] != 0)
    brows.append('| %s | %s | %s | %s |' % (bid, m['property'], m['summary'].replace('|', '/')[:220], status))
nsil = sum(1 for i in bids if bres.get(i, {}).get('silent'))
bnotes = open(os.path.join(broot, 'NOTES.md')).read() if os.path.exists(os.path.join(broot, 'NOTES.md')) else ''

text = '''## 12. Seeded changes and which checks catch them

### 12.1 Changes written by independent sub-agents

Each change was written by a fresh sub-agent that was given only the text of one property and
its own scratch worktree of /repo (nothing from /verif), with the request for a realistic change
that still compiles and passes the existing tests and needs something specific to manifest (round
1: two per property; round 2: three per property, at least one with two cooperating sites, one in
a rarely used entry point, one depending on a history / schedule / ordering; round 3 (ids f-h): three
per property, each breaking a different clause of the statement; round 4 (ids i-k): three per
property, built to escape exhaustive small-scope enumeration and moderate random testing - scale,
rare values, long histories; round 5 (ids l-n): a conjunction of two individually unremarkable
conditions, a dependence on history or a less-travelled route to the same logic, and the subtlest
change the agent could devise against "all small inputs plus hundreds of thousands of random inputs
of up to 100 KB with odd Unicode, limit numbers and power-of-two sizes").  Each was confirmed
here with `tools/confirm_seed.py` in the scratch worktree: the demonstration passes on unmodified
HEAD, the whole existing suite (lib, integration and doc-tests: 139 tests) passes with the patch,
the demonstration fails with the patch.  Kept as `seeded/<id>/{patch.diff, demo.rs, note.txt,
meta.json}`.  `tools/seedtest.py` applies each patch to /repo, runs the quick check of the property
it breaks, expects exit 1 with VIOLATION lines and restores /repo (`tools/parseed.py` does the same
in parallel lanes, each with private copies mounted over /repo and /verif); results in
`seeded/RESULTS.json`.  Currently %d of %d are caught; of the other four, three are out of reach of the
quick tier for the reason given in their row (11.5c) and one (C10-l) differs from HEAD only on a name
the statement is ambiguous about and is deliberately not judged.  (The rows of ids f-n, and 74 of the 100 rows of ids a-e, were re-run
with the checks as they stand at the end of the fifth session - every re-run a-e row is caught as
before; the remaining 26 rows of ids a-e are from the session in which they were written.)

| id | property | needs, in order to manifest | result |
|---|---|---|---|
%s

%s
### 12.2 Hand-written mutants (`selftest/mutants.py`, `tools/selftest.py`)

From appendix B.  A mutant that the 57 baseline tests already catch is not a candidate and is
skipped.

| id | property | file | result |
|---|---|---|---|
%s

M25 ("`is_completed()` ignores SIZE_PKG") was missed by the first version of the C08 check (it
was only visible to C07's histories); C08 now also validates `is_completed()` after every call
of recorded random histories.

### 12.3 Harmless changes: the checks must stay silent (`benign/`, `tools/benignscreen.py`)

The opposite experiment.  Fresh sub-agents, again given only the text of one property and a scratch
worktree, were asked for three changes each that a maintainer could commit and that keep the
property true for every input: genuine refactorings of the central function (another algorithm,
another data structure, iterators for loops, byte scanning for char scanning, helpers extracted),
and changes of behaviour the statement leaves open (wording of error messages, which error variant
is reported where the statement only says "an error", Debug output, buffer sizes, which of two
faults is reported first).  Each compiles without warnings and passes the existing suite.
`tools/benignscreen.py` applies each one, runs the existing suite and then the quick check of
*every* property anchored in a file the patch touches (not only the one the agent saw), and expects
exit 0 everywhere.  %d of %d are silent.  (The table shows the latest screen, run in parallel lanes with
`tools/parseed.py --dir benign` after the generators learnt to use the literals of the tree under
test - a harmless change that introduces new literals changes the generated inputs.  That run was
limited to the property the change was written against and the first further one
(`BENIGN_MAX_PROPS=2`); the screen before it, on the same 60 changes, ran every anchored property
and was silent as well.)

| id | property given | change (first line of the agent's note) | checks run and result |
|---|---|---|---|
%s

%s
''' % (ndet, len(ids), '\n'.join(rows), open(os.path.join(root, 'MISSED_AT_FIRST.md')).read(), '\n'.join(srows), nsil, len(bids), '\n'.join(brows), bnotes)
p = '/verif/DESIGN.md'
s = open(p).read()
a = s.index('## 12. Seeded changes and which checks catch them')
b = s.index('## Appendix A.')
s = s[:a] + text + '\n---------------------------------------------------------------------------------------\n\n' + s[b:]
open(p, 'w').write(s)
print("section 12 regenerated: %d/%d" % (ndet, len(ids)))
