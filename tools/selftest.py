#!/usr/bin/env python3
"""tools/selftest.py [ids...]: apply each hand-written mutant of selftest/mutants.py to /repo, make sure
the 57 baseline tests (lib + integration tests; doc-tests are not in the baseline) still pass (else skip: the existing tests already catch it), run the quick check of
its property and expect exit 1.  Leaves /repo clean.  Writes selftest/RESULTS.json."""
import json, os, subprocess, sys, time
sys.path.insert(0, "/verif/selftest")
from mutants import MUTANTS
ids = sys.argv[1:]
res_path = "/verif/selftest/RESULTS.json"
results = json.load(open(res_path)) if os.path.exists(res_path) else {}
assert subprocess.run(["git", "-C", "/repo", "status", "--porcelain", "--untracked-files=no"], capture_output=True, text=True).stdout.strip() == ""
for mid, prop, f, old, new in MUTANTS:
    if ids and mid not in ids:
        continue
    p = os.path.join("/repo", f)
    s = open(p).read()
    if s.count(old) != 1:
        results[mid] = {"error": "pattern occurs %d times" % s.count(old)}
        print(mid, results[mid]); continue
    open(p, "w").write(s.replace(old, new))
    try:
        t = subprocess.run("cargo test --workspace --no-fail-fast --offline --lib --tests 2>&1", shell=True, cwd="/repo", capture_output=True, text=True)
        lines = [l for l in t.stdout.splitlines() if l.startswith("test result:")]
        failed = sum(int(l.split()[5]) for l in lines) if lines else -1
        if t.returncode != 0 or failed != 0:
            results[mid] = {"property": prop, "skipped": "caught by the existing tests or does not compile"}
            print(mid, "skipped (existing tests / compile)"); continue
        t0 = time.time()
        c = subprocess.run(["/verif/bin/check", prop, "--tier", "quick"], capture_output=True, text=True, cwd="/verif")
        viol = [l for l in c.stdout.splitlines() if l.startswith("VIOLATION")]
        results[mid] = {"property": prop, "exit": c.returncode, "violation_lines": len(viol), "detected": c.returncode == 1 and len(viol) > 0,
                        "wall_s": round(time.time() - t0, 1)}
        print(mid, prop, results[mid], flush=True)
    finally:
        subprocess.run(["git", "-C", "/repo", "checkout", "--", "."], check=True)
json.dump(results, open(res_path, "w"), indent=1, sort_keys=True)
run = [m for m in results if "detected" in results[m]]
print("detected %d / %d (skipped %d)" % (sum(results[m]["detected"] for m in run), len(run), len(results) - len(run)))
