//! One function per specification operator: drive the public API of the library with
//! the given abstract input and project what it does to JSON, in exactly the shape the
//! TLA+ specification computes (records -> objects, sequences -> arrays, text ->
//! arrays of codes, verdicts -> "T"/"F").
use crate::util::*;
use serde_json::{json, Value};

pub mod dewey;
pub mod messages;
pub mod values;
pub mod digest;
pub mod distinfo;
pub mod names;
pub mod pattern;
pub mod pkgdb;
pub mod plist;
pub mod scanindex;
pub mod summary;

#[derive(Default)]
pub struct State {
    pub vers: Vec<String>,
    pub pe: Vec<bool>,
    pub ne: Vec<bool>,
    pub names: Vec<String>,
}

pub struct Out {
    pub obs: Value,
    pub evals: u64,
    pub nontrivial: u64,
}
impl Out {
    pub fn new(obs: Value, evals: u64, nontrivial: u64) -> Out {
        Out { obs, evals, nontrivial }
    }
}

pub struct Mismatch {
    pub tag: String,
    pub detail: Value,
}

/// Run one operation.  `None` = the op only sets harness state (a header record).
pub fn run(st: &mut State, op: &str, input: &Value) -> Option<Out> {
    match op {
        "verlist" => {
            st.vers = input["vs"].as_array().unwrap().iter().map(to_string).collect();
            st.pe = input["pe"].as_array().unwrap().iter().map(|v| v == "T").collect();
            st.ne = input["ne"].as_array().unwrap().iter().map(|v| v == "T").collect();
            None
        }
        "namelist" => {
            st.names = input["ns"].as_array().unwrap().iter().map(to_string).collect();
            None
        }
        "verrow" => Some(dewey::verrow(st, input)),
        "vercmp" => Some(dewey::vercmp(input)),
        "vertriple" => Some(dewey::vertriple(input)),
        "patrow" => Some(pattern::patrow(st, input)),
        "patmatch" => Some(pattern::patmatch(input)),
        "best" => Some(pattern::best(input)),
        "patmatrix" => Some(pattern::patmatrix(input)),
        "reduce" => Some(pattern::reduce(input)),
        "pkgname" => Some(names::pkgname(input)),
        "pkgpath" => Some(names::pkgpath(input)),
        "depend" => Some(names::depend(input)),
        "distparse" => Some(distinfo::distparse(input)),
        "distbuild" => Some(distinfo::distbuild(input)),
        "verify" => Some(distinfo::verify(input)),
        "scanindex" => Some(scanindex::scanindex(input)),
        "pkgdb" => Some(pkgdb::pkgdb(input)),
        "metahist" => Some(pkgdb::metahist(input)),
        "metaname" => Some(pkgdb::metaname(input)),
        "plist" => Some(plist::plist(input)),
        "plistline" => Some(plist::plistline(input)),
        "errmsg" => Some(messages::errmsg(input)),
        "values" => Some(values::values(input)),
        "digest" => Some(digest::digest(input)),
        "algname" => Some(digest::algname(input)),
        "hashvec" => Some(digest::hashvec(input)),
        "sumhist" => Some(summary::sumhist(input)),
        "sumparse" => Some(summary::sumparse(input)),
        "stream" => Some(summary::stream(input)),
        _ => Some(Out::new(json!({"unknown_op": op}), 0, 0)),
    }
}

/// Compare the observed outcome with the specification's expected outcome(s).
/// `out` is the property's outcome; `alt` maps the id of a named deviation of the
/// specification (known finding) to the outcome under that deviation.
pub fn compare(st: &State, op: &str, case: &Value, obs: &Value) -> Vec<Mismatch> {
    let out = &case["out"];
    let alt = case.get("alt");
    match op {
        "verrow" => dewey::verrow_compare(st, case, obs),
        "digest" => digest::digest_compare(case, obs),
        "pkgdb" => pkgdb::pkgdb_compare(case, obs),
        _ if case.get("each").is_some() => {
            // element-wise comparison of equally shaped arrays under each key
            let mut ms = vec![];
            let keys: Vec<String> = out.as_object().map(|o| o.keys().cloned().collect()).unwrap_or_default();
            for k in keys {
                let (e, o) = (&out[&k], &obs[&k]);
                match (e.as_array(), o.as_array()) {
                    (Some(ea), Some(oa)) if ea.len() == oa.len() => {
                        for i in 0..ea.len() {
                            if ea[i] != oa[i] {
                                let mut tag = String::new();
                                if let Some(a) = alt.and_then(|a| a.as_object()) {
                                    for (t, v) in a {
                                        if v[&k].get(i) == Some(&oa[i]) {
                                            tag = t.clone();
                                        }
                                    }
                                }
                                ms.push(Mismatch {
                                    tag,
                                    detail: json!({"key": k, "index": i, "expected": ea[i], "observed": oa[i]}),
                                });
                            }
                        }
                    }
                    _ => {
                        if !accepts(e, o) {
                            let mut tag = String::new();
                            if let Some(a) = alt.and_then(|a| a.as_object()) {
                                for (t, v) in a {
                                    if &v[&k] == o {
                                        tag = t.clone();
                                    }
                                }
                            }
                            ms.push(Mismatch { tag, detail: json!({"key": k, "expected": e, "observed": o}) });
                        }
                    }
                }
            }
            ms
        }
        _ => {
            if accepts(out, obs) {
                return vec![];
            }
            let mut tag = String::new();
            if let Some(a) = alt.and_then(|a| a.as_object()) {
                for (t, v) in a {
                    if accepts(v, obs) {
                        tag = t.clone();
                    }
                }
            }
            vec![Mismatch { tag, detail: json!({"expected": out, "observed": obs}) }]
        }
    }
}

/// expected may be a set of allowed outcomes: {"anyof": [...]}
fn accepts(expected: &Value, obs: &Value) -> bool {
    if let Some(a) = expected.get("anyof").and_then(|a| a.as_array()) {
        return a.iter().any(|e| e == obs);
    }
    expected == obs
}
