//! Seeded generators for the implementation -> specification direction: inputs that
//! are larger and wilder than TLC could enumerate.
use crate::util::*;
use serde_json::{json, Value};

pub mod names;
pub mod patterns;
pub mod versions;

pub fn driver_salt(driver: &str) -> u64 {
    driver.bytes().fold(1469598103934665603u64, |h, b| (h ^ b as u64).wrapping_mul(1099511628211))
}

pub struct Gen {
    driver: String,
    #[allow(dead_code)]
    args: Vec<String>,
}

impl Gen {
    pub fn new(driver: &str, args: &[String]) -> Gen {
        Gen { driver: driver.to_string(), args: args.to_vec() }
    }
    pub fn next(&mut self, rng: &mut Rng, i: u64) -> Option<(String, Value)> {
        match self.driver.as_str() {
            "vercmp" => {
                let (a, b) = versions::pair(rng, i);
                Some(("vercmp".into(), json!({"a": codes(&a), "b": codes(&b)})))
            }
            "vertriple" => {
                let (a, b, c) = versions::triple(rng, i);
                Some(("vertriple".into(), json!({"a": codes(&a), "b": codes(&b), "c": codes(&c)})))
            }
            "patmatch" | "patdewey" | "patglob" | "patbrace" => {
                let (p, names) = match self.driver.as_str() {
                    "patdewey" => patterns::dewey(rng),
                    "patglob" => patterns::glob(rng),
                    "patbrace" => patterns::brace(rng),
                    _ => patterns::any(rng),
                };
                let ns: Vec<Value> = names.iter().map(|n| codes(n)).collect();
                Some(("patmatch".into(), json!({"p": codes(&p), "ns": ns})))
            }
            "pkgname" => Some(("pkgname".into(), json!({"s": codes(&names::pkgname(rng))}))),
            "pkgpath" => Some(("pkgpath".into(), json!({"s": codes(&names::pkgpath(rng))}))),
            "depend" => Some(("depend".into(), json!({"s": codes(&names::depend(rng))}))),
            "reduce" => {
                // a pool of candidates for one pattern and a random order of pairwise reductions
                let (p, mut names) = match rng.below(3) { 0 => patterns::dewey(rng), 1 => patterns::glob(rng), _ => patterns::brace(rng) };
                while names.len() < 2 { names.push(patterns::mutate_name(rng, &p)); }
                let n = rng.range(2, 8);
                let pool: Vec<String> = (0..n).map(|_| names[rng.below(names.len())].clone()).collect();
                let mut steps = vec![];
                let mut len = n;
                while len > 1 {
                    let i = rng.below(len);
                    let mut j = rng.below(len - 1);
                    if j >= i { j += 1; }
                    steps.push(json!([i + 1, j + 1]));
                    len -= 1;
                }
                let pj: Vec<Value> = pool.iter().map(|n| codes(n)).collect();
                Some(("reduce".into(), json!({"p": codes(&p), "pool": pj, "steps": steps})))
            }
            "best" => {
                let (p, mut names) = patterns::any(rng);
                while names.len() < 2 {
                    names.push(patterns::mutate_name(rng, &p));
                }
                let a = names[rng.below(names.len())].clone();
                let b = if rng.chance(1, 8) { a.clone() } else { names[rng.below(names.len())].clone() };
                Some(("best".into(), json!({"p": codes(&p), "a": codes(&a), "b": codes(&b)})))
            }
            _ => None,
        }
    }
}
