//! Seeded generators for the implementation -> specification direction: inputs that
//! are larger and wilder than TLC could enumerate.
use crate::util::*;
use serde_json::{json, Value};

pub mod versions;

pub fn driver_salt(driver: &str) -> u64 {
    driver.bytes().fold(1469598103934665603u64, |h, b| (h ^ b as u64).wrapping_mul(1099511628211))
}

pub struct Gen {
    driver: String,
    #[allow(dead_code)]
    args: Vec<String>,
}

impl Gen {
    pub fn new(driver: &str, args: &[String]) -> Gen {
        Gen { driver: driver.to_string(), args: args.to_vec() }
    }
    pub fn next(&mut self, rng: &mut Rng, i: u64) -> Option<(String, Value)> {
        match self.driver.as_str() {
            "vercmp" => {
                let (a, b) = versions::pair(rng, i);
                Some(("vercmp".into(), json!({"a": codes(&a), "b": codes(&b)})))
            }
            "vertriple" => {
                let (a, b, c) = versions::triple(rng, i);
                Some(("vertriple".into(), json!({"a": codes(&a), "b": codes(&b), "c": codes(&c)})))
            }
            _ => None,
        }
    }
}
