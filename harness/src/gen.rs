//! Seeded generators for the implementation -> specification direction: inputs that
//! are larger and wilder than TLC could enumerate.
use crate::util::*;
use serde_json::{json, Value};

pub mod digests;
pub mod hostile;
pub mod distinfos;
pub mod names;
pub mod patterns;
pub mod plists;
pub mod scanindexes;
pub mod summaries;
pub mod versions;

pub fn driver_salt(driver: &str) -> u64 {
    driver.bytes().fold(1469598103934665603u64, |h, b| (h ^ b as u64).wrapping_mul(1099511628211))
}

pub struct Gen {
    driver: String,
    #[allow(dead_code)]
    args: Vec<String>,
    cases: Option<std::io::Lines<std::io::BufReader<std::fs::File>>>,
    streams: Option<summaries::StreamPlan>,
}

impl Gen {
    pub fn new(driver: &str, args: &[String]) -> Gen {
        // "@cases <file>": inputs come from cases emitted by TLC (spec -> impl -> spec)
        let cases = if driver == "@cases" {
            use std::io::BufRead;
            Some(std::io::BufReader::new(std::fs::File::open(&args[0]).expect("cases file")).lines())
        } else {
            None
        };
        Gen { driver: driver.to_string(), args: args.to_vec(), cases, streams: None }
    }
    pub fn next(&mut self, rng: &mut Rng, i: u64) -> Option<(String, Value)> {
        match self.driver.as_str() {
            "hostile" => Some(hostile::next(rng, i)),
            "@cases" => {
                let line = self.cases.as_mut().unwrap().next()?.ok()?;
                let v: Value = serde_json::from_str(&line).ok()?;
                Some((v["op"].as_str().unwrap_or("").to_string(), v["in"].clone()))
            }
            "distcanon" | "distmessy" => {
                let t = if self.driver == "distcanon" { distinfos::canonical(rng) } else { distinfos::messy(rng) };
                let ps: Vec<Value> = distinfos::probes(&t, rng).iter().map(|p| bytes_json(p)).collect();
                Some(("distparse".into(), json!({"bytes": bytes_json(&t), "probes": ps})))
            }
            "distbuild" => Some(("distbuild".into(), distinfos::build(rng))),
            "verify" => Some(("verify".into(), distinfos::verify(rng))),
            // (the first two files of a run: one record with one list line of more than 64 KiB that
            // nothing else in the file overrides - SCAN_DEPENDS, then ALL_DEPENDS)
            "scanindex" if i < 2 => {
                let long = if i == 0 { format!("SCAN_DEPENDS={}", (0..3000).map(|k| format!("/usr/pkgsrc/mk/bsd.file-{}.mk", k)).collect::<Vec<_>>().join(" ")) }
                           else { format!("ALL_DEPENDS={}", (0..2400).map(|k| format!("lib{:05}>=1.{}:../../devel/lib{:05}", k, k % 7, k)).collect::<Vec<_>>().join(" ")) };
                let ls = vec!["PKGNAME=big-1.0".to_string(), "PKG_LOCATION=devel/big".to_string(), long, "MAINTAINER=x@example.org".to_string(), "PKGNAME=next-2.0".to_string()];
                Some(("scanindex".into(), json!({"lines": ls.iter().map(|l| codes(l)).collect::<Vec<_>>(), "err_at": 0, "final_nl": "T", "err_kind": "Other", "err_mid": "F"})))
            }
            "scanindex" => {
                let (ls, err, nl) = scanindexes::lines(rng);
                Some(("scanindex".into(), json!({"lines": ls.iter().map(|l| codes(l)).collect::<Vec<_>>(), "err_at": err, "final_nl": tf(nl),
                                                 "err_kind": scanindexes::err_kind(rng), "err_mid": tf(rng.chance(1, 2))})))
            }
            "pkgdb" => {
                // scale: more directory entries than a read-ahead batch
                let n = if rng.chance(1, 60) { *rng.pick(&[64usize, 65, 66, 130, 200]) } else { rng.range(0, 5) };
                let mut used: Vec<String> = vec![];
                let mut es = vec![];
                for k in 0..n {
                    let name = match rng.below(5) {
                        _ if n > 10 => format!("pkg{:04}-{}.{}nb{}", k, rng.below(3), rng.below(10), rng.below(3)),
                        0 => rng.pick_str(&["nodash", "x-", "-1", "a--2", "é-1.0"]).to_string(),
                        // (a version part that does not start with a digit after an earlier "-<digit>": the split is at the last '-')
                        _ => format!("{}-{}", rng.pick_str(&["a", "py39-foo", "lib-b-c", "x", "p5-2to3"]), rng.pick_str(&["1", "1.0nb2", "2.3.4", "0alpha1nb10", "1.0-rc1", "current", "2-x", "1.0-"])),
                    };
                    // a literal of the code under test in the directory name (file names: no '/', no NUL)
                    let name = { let d = crate::dict::dictify(rng, &name, 20).replace(['/', '\0'], ""); if d.is_empty() || d == "." || d == ".." || d.len() > 200 { name } else { d } };
                    if used.contains(&name) { continue; }
                    used.push(name.clone());
                    let dir = rng.chance(5, 6);
                    let mut files: Vec<usize> = vec![];
                    for f in 1..=14 {
                        let mandatory = f == 3 || f == 4 || f == 6;
                        if (mandatory && rng.chance(4, 5)) || (!mandatory && rng.chance(1, 4)) { files.push(f); }
                    }
                    let files = if dir { files } else { vec![] };
                    // zero-length '+' files exist all the same; a name that is not UTF-8 on disk
                    let empty: Vec<usize> = files.iter().copied().filter(|_| rng.chance(1, 6)).collect();
                    // "big": the '+' files are longer than 8 KiB with a multi-byte character across the 8192nd
                    // byte (T); +CONTENTS reaches across the 65 536th (K) or the 1 048 576th byte (M)
                    es.push(json!({"name": codes(&name), "dir": tf(dir), "files": files, "empty": empty, "raw": tf(rng.chance(1, 12)), "big": if rng.chance(1, 25) { "T" } else if rng.chance(1, 100) { "K" } else if rng.chance(1, 250) { "M" } else { "F" }}));
                }
                let root = match rng.below(12) { 0 => "file", 1 => "missing", _ => "dir" };
                Some(("pkgdb".into(), json!({"root": root, "entries": if root == "dir" { es } else { vec![] }})))
            }
            "metahist" => {
                let calls: Vec<Value> = (0..rng.range(0, 8)).map(|_| {
                    let e = rng.range(1, 14);
                    let v = match rng.below(8) {
                        0 => String::new(),
                        1 => format!("{}", summaries::int(rng)),
                        2 => " 42\n".replace("\\n", "\n"),
                        3 => "abc".to_string(),
                        4 => "line one\nline two\r\n\nlast".replace("\\n", "\n").replace("\\r", "\r"),
                        5 => "  \n\t ".replace("\\n", "\n").replace("\\t", "\t"),
                        // rare values: nothing but blanks that are not ASCII blanks
                        7 if rng.chance(1, 2) => { let mut s = String::new(); for _ in 0..rng.range(1, 3) { s.push(*rng.pick(&UNI_BLANKS)); } s }
                        6 => "99999999999999999999".to_string(),
                        _ => summaries::text(rng),
                    };
                    json!([e, codes(&v)])
                }).collect();
                Some(("metahist".into(), json!({"calls": calls})))
            }
            "metaname" => {
                let f = match rng.below(3) {
                    0 => rng.pick_str(&["+BUILD_INFO", "+BUILD_VERSION", "+COMMENT", "+CONTENTS", "+DEINSTALL", "+DESC", "+DISPLAY", "+INSTALL",
                                        "+INSTALLED_INFO", "+MTREE_DIRS", "+PRESERVE", "+REQUIRED_BY", "+SIZE_ALL", "+SIZE_PKG"]).to_string(),
                    1 => rng.pick_str(&["+comment", "COMMENT", "+COMMENT ", "+SIZE", "+SIZE_PKGS", "", "+", "+DESCR", "+REQUIRED-BY",
                                        "./+DESC", "a-1.0/+CONTENTS", "+COMMENT/+DESC", "/+BUILD_INFO", "+INSTALL/", "+DISPLAY\n", "\u{feff}+DESC", "+desc"]).to_string(),
                    _ => summaries::text(rng),
                };
                Some(("metaname".into(), json!({"f": codes(&f)})))
            }
            // (the first two lists of a run: a short list that parses, with one line of 65 536 / 65 539
            // bytes - a file name, a command argument)
            "plist" if i < 2 => {
                let mut t = b"@name pkg-1.0\nbin/a\n".to_vec();
                if i == 0 { t.extend(std::iter::repeat(b'f').take(65536)); } else { t.extend_from_slice(b"@comment "); t.extend(std::iter::repeat(b'c').take(65530)); }
                t.extend_from_slice(b"\nbin/b\n");
                Some(("plist".into(), json!({"bytes": bytes_json(&t)})))
            }
            "plist" => Some(("plist".into(), json!({"bytes": bytes_json(&plists::plist(rng))}))),
            "plistline" => Some(("plistline".into(), json!({"bytes": bytes_json(&plists::line(rng))}))),
            "values" => {
                // two texts that are often equal, often spellings of one value, often near misses
                let what = *rng.pick(&["pkgname", "pkgpath", "pattern", "depend"]);
                // (mostly well-formed paths and dependencies, so that the comparisons have something to compare)
                let good_path = |rng: &mut Rng| format!("{}{}{}{}{}", rng.pick_str(&["", "", "../../", "..//../"]), rng.pick_str(&["devel", "www", "x11", "d\u{e9}v", "a"]),
                                                        rng.pick_str(&["/", "/", "//", "/./"]), rng.pick_str(&["a", "foo", "py-b", "lib2", "\u{65e5}"]), rng.pick_str(&["", "", "/", "/."]));
                let a = match what {
                    "pkgname" => names::pkgname(rng),
                    "pkgpath" => if rng.chance(2, 3) { good_path(rng) } else { names::pkgpath(rng) },
                    "pattern" => patterns::any(rng).0,
                    _ => if rng.chance(2, 3) { format!("{}:{}", patterns::dewey(rng).0.replace(':', ""), good_path(rng)) } else { names::depend(rng) },
                };
                let b = match rng.below(6) {
                    0 | 1 => a.clone(),
                    2 if what == "pkgpath" || what == "depend" => a.replacen("../../", "", 1),
                    2 => a.to_uppercase(),
                    3 if what == "pkgpath" => format!("../../{}", a),
                    3 if what == "depend" => a.replacen(':', ":../../", 1),
                    3 => format!("{}0", a),
                    4 => { let cs: Vec<char> = a.chars().collect(); if cs.is_empty() { "x".into() } else { let i = rng.below(cs.len()); cs.iter().enumerate().filter(|(k, _)| *k != i).map(|(_, c)| *c).collect() } }
                    _ => match what { "pkgname" => names::pkgname(rng), "pkgpath" => names::pkgpath(rng), "pattern" => patterns::any(rng).0, _ => names::depend(rng) },
                };
                Some(("values".into(), json!({"what": what, "a": codes(&a), "b": codes(&b)})))
            }
            "errmsg" => {
                let (what, v): (&str, Value) = match rng.below(8) {
                    0 => ("pattern", codes(&patterns::any(rng).0)),
                    1 => ("pattern", codes(&{ let (p, _) = patterns::dewey(rng); format!("{}{}", p, rng.pick_str(&["<1", ">2", "", "}", "{"])) })),
                    2 => ("dewey", codes(&{ let (p, _) = patterns::dewey(rng); if rng.chance(1, 3) { p.replace(['<', '>'], "") } else { format!("{}{}", p, rng.pick_str(&["<1", ">2<3", ""])) } })),
                    3 => ("pkgpath", codes(&names::pkgpath(rng))),
                    4 => ("depend", codes(&names::depend(rng))),
                    5 => ("summary", codes(&summaries::faulty_text(rng))),
                    6 => ("plistline", bytes_json(&plists::line(rng))),
                    _ => ("digest", codes(&digests::algname(rng))),
                };
                Some(("errmsg".into(), json!({"what": what, "s": v})))
            }
            "digest" => Some(("digest".into(), digests::case_i(rng, i))),
            "algname" => Some(("algname".into(), json!({"s": codes(&digests::algname(rng))}))),
            "hashvec" => Some(("hashvec".into(), json!({"data": bytes_json(&digests::vector(rng, i))}))),
            "sumhist" => {
                let vals = summaries::entry_values(rng);
                Some(("sumhist".into(), json!({"steps": summaries::history(rng, &vals)})))
            }
            "sumnames" => {
                // repeated set_pkgname with related names (a '-' segment inserted, removed, moved), other calls in between
                let stem = format!("{}{}", rng.pick_str(&["py311", "a", "lib", "x-y"]), rng.pick_str(&["-foo", "-b", ""]));
                let mut steps = vec![];
                for _ in 0..rng.range(2, 6) {
                    let name = match rng.below(7) {
                        0 => format!("{}-1.0", stem),
                        1 => format!("{}-bar-1.0nb1", stem),
                        2 => format!("{}-", stem),
                        3 => format!("-{}", stem),
                        4 => stem.clone(),
                        5 => format!("{}--2", stem),
                        _ => names::pkgname(rng),
                    };
                    steps.push(json!(["set", 16, codes(&name)]));
                    if rng.chance(1, 3) { steps.push(json!(["set", 3, codes(&summaries::text(rng))])); }
                    if rng.chance(1, 4) { steps.push(json!(["push", 6, codes(&summaries::text(rng))])); }
                }
                Some(("sumhist".into(), json!({"steps": steps})))
            }
            "sumparse" => {
                let t = if rng.chance(1, 4) { summaries::canonical_text(&summaries::entry_values(rng)) } else { summaries::faulty_text(rng) };
                Some(("sumparse".into(), json!({"text": codes(&t)})))
            }
            "stream" => {
                if self.streams.is_none() {
                    let want: usize = self.args.get(0).and_then(|a| a.parse().ok()).unwrap_or(1000);
                    let pairs = self.args.get(1).map(|a| a == "pairs").unwrap_or(false);
                    self.streams = Some(summaries::StreamPlan::new(rng, want, pairs));
                }
                let input = self.streams.as_mut().unwrap().next()?;
                Some(("stream".into(), input))
            }
            "vercmp" => {
                let (a, b) = versions::pair(rng, i);
                Some(("vercmp".into(), json!({"a": codes(&a), "b": codes(&b)})))
            }
            "vertriple" => {
                let (a, b, c) = versions::triple(rng, i);
                Some(("vertriple".into(), json!({"a": codes(&a), "b": codes(&b), "c": codes(&c)})))
            }
            "patmatch" | "patdewey" | "patglob" | "patbrace" => {
                let (p, names) = loop {
                    let (p, names) = match self.driver.as_str() {
                        "patdewey" => { let pn = patterns::dewey(rng); patterns::tail(rng, pn) }
                        // (C05 is about glob and plain patterns)
                        "patglob" => { let pn = if rng.chance(1, 6) { patterns::plain(rng) } else { patterns::glob(rng) }; patterns::tail(rng, pn) }
                        "patbrace" => { let pn = patterns::brace(rng); patterns::tail(rng, pn) }
                        _ => patterns::any(rng),
                    };
                    // version comparison is specified for digit runs of at most 18 digits (C01)
                    if versions::max_digit_run(&p) <= 18 && names.iter().all(|n| versions::max_digit_run(n) <= 18) {
                        break (p, names);
                    }
                };
                let ns: Vec<Value> = names.iter().map(|n| codes(n)).collect();
                Some(("patmatch".into(), json!({"p": codes(&p), "ns": ns})))
            }
            "pkgname" => Some(("pkgname".into(), json!({"s": codes(&names::pkgname(rng))}))),
            "pkgpath" => Some(("pkgpath".into(), json!({"s": codes(&names::pkgpath(rng))}))),
            "depend" => Some(("depend".into(), json!({"s": codes(&names::depend(rng))}))),
            "reduce" => {
                // a pool of candidates for one pattern and a random order of pairwise reductions
                let (p, names) = loop {
                    let (p, mut names) = match rng.below(3) { 0 => patterns::dewey(rng), 1 => patterns::glob(rng), _ => patterns::brace(rng) };
                    while names.len() < 2 { names.push(patterns::mutate_name(rng, &p)); }
                    // (a pattern nested hundreds of braces deep costs the specification seconds per
                    // match; those are matched once each by the patbrace and hostile drivers, not
                    // fourteen times in a reduction history)
                    if p.matches('{').count() > 64 { continue; }
                    if versions::max_digit_run(&p) <= 18 && names.iter().all(|n| versions::max_digit_run(n) <= 18) {
                        break (p, names);
                    }
                };
                let n = rng.range(2, 8);
                let pool: Vec<String> = (0..n).map(|_| names[rng.below(names.len())].clone()).collect();
                let mut steps = vec![];
                let mut len = n;
                while len > 1 {
                    let i = rng.below(len);
                    let mut j = rng.below(len - 1);
                    if j >= i { j += 1; }
                    steps.push(json!([i + 1, j + 1]));
                    len -= 1;
                }
                let pj: Vec<Value> = pool.iter().map(|n| codes(n)).collect();
                Some(("reduce".into(), json!({"p": codes(&p), "pool": pj, "steps": steps})))
            }
            "patmatrix" => {
                let (ps, ns) = loop {
                    let (ps, ns) = patterns::matrix(rng);
                    if ps.iter().chain(ns.iter()).all(|x| versions::max_digit_run(x) <= 18) { break (ps, ns); }
                };
                Some(("patmatrix".into(), json!({"ps": ps.iter().map(|p| codes(p)).collect::<Vec<_>>(), "ns": ns.iter().map(|n| codes(n)).collect::<Vec<_>>()})))
            }
            "best" if rng.chance(1, 6) => {
                // version ties between different names: the byte-wise smaller full name must win
                let b = patterns::base(rng).replace(['{', '}', '<', '>', '*', '?', '[', ']'], "");
                let v = rng.pick_str(&["1.0", "2", "1.0nb1", "0", "3.1rc1"]);
                let (v1, v2) = match rng.below(3) { 0 => (v.to_string(), v.to_string()), 1 => (v.to_string(), format!("{}.0", v)), _ => (format!("{}_", v), format!("{}.", v)) };
                let other = format!("{}{}", b, rng.pick_str(&["+", "-1", "-x", "2", ".", "-"]));
                let (a, c) = (format!("{}-{}", b, v1), format!("{}-{}", other, v2));
                let p = rng.pick_str(&["*", "*-[0-9]*", "?*"]).to_string();
                let (a, c) = if rng.chance(1, 2) { (a, c) } else { (c, a) };
                Some(("best".into(), json!({"p": codes(&p), "a": codes(&a), "b": codes(&c)})))
            }
            "best" => {
                let (p, names) = loop {
                    let (p, mut names) = patterns::any(rng);
                    while names.len() < 2 {
                        names.push(patterns::mutate_name(rng, &p));
                    }
                    if versions::max_digit_run(&p) <= 18 && names.iter().all(|n| versions::max_digit_run(n) <= 18) {
                        break (p, names);
                    }
                };
                let mut a = names[rng.below(names.len())].clone();
                let mut b = if rng.chance(1, 8) { a.clone() } else { names[rng.below(names.len())].clone() };
                // now and then a component at or beyond the limit of i64 against whatever the other
                // candidate has there (outside C01's domain: only the order-free laws are judged)
                if rng.chance(1, 12) {
                    if let Some(i) = a.rfind(|c: char| c.is_ascii_digit()) {
                        let big = rng.pick_str(&["9223372036854775807", "9223372036854775806", "9223372036854775805", "99999999999999999999", "20261005123456789012345"]);
                        if rng.chance(1, 2) {
                            // the other candidate has a modifier in the same position
                            b = a.clone();
                            b.replace_range(i..i + 1, rng.pick_str(&["rc1", "alpha", "beta2", "pre", "RC", "pl1", ".1"]));
                        }
                        a.replace_range(i..i + 1, big);
                    }
                }
                Some(("best".into(), json!({"p": codes(&p), "a": codes(&a), "b": codes(&b)})))
            }
            _ => None,
        }
    }
}
