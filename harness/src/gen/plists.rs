//! Random packing lists.
use crate::util::*;

const CMDS: [&str; 18] = ["@cwd", "@src", "@cd", "@exec", "@unexec", "@option", "@mode", "@owner", "@group", "@comment",
    "@ignore", "@name", "@pkgdep", "@blddep", "@pkgcfl", "@pkgdir", "@dirrm", "@display"];

fn arg(rng: &mut Rng) -> Vec<u8> {
    // rare values: a Unicode blank (valid UTF-8, not an ASCII blank) right where the argument starts
    if rng.chance(1, 15) {
        let mut a = String::new();
        a.push(*rng.pick(&UNI_BLANKS));
        a.push_str(rng.pick_str(&["", "x", "preserve", "/usr/pkg", " y"]));
        return a.into_bytes();
    }
    // scale: an argument longer than a 16-bit length
    if rng.chance(1, 300) {
        let mut a = vec![b'A'; threshold(rng, 70000)];
        if rng.chance(1, 2) { a.push(0xe9); }
        return a;
    }
    match rng.below(8) {
        0 => b"/usr/pkg".to_vec(),
        1 => "d\u{e9}j\u{e0} vu".as_bytes().to_vec(),
        2 => vec![b'x', 0xe9, b'y'],
        3 => b"preserve".to_vec(),
        4 => b"bin/foo ".to_vec(),
        5 => b"a  b\tc".to_vec(),
        6 => b"/opt/".to_vec(),
        _ => { let a: Vec<u8> = (0..rng.range(1, 12)).map(|_| *rng.pick(b"abc/-.0123 =@%")).collect();
               let mut a = crate::dict::dictify_bytes(rng, &a, 6); a.retain(|c| *c != b'\n'); a }
    }
}

pub fn line(rng: &mut Rng) -> Vec<u8> {
    let mut l: Vec<u8> = vec![];
    match rng.below(12) {
        0..=3 => {
            // a file name of any length >= 1 over arbitrary bytes
            if rng.chance(1, 200) { l = vec![b'f'; threshold(rng, 70000)]; }
            else if rng.chance(1, 3) { l.push(*rng.pick(b"abcxyz0+")); }
            else { for _ in 0..rng.range(1, 20) { let c = rng.range(1, 255) as u8; if c != b'\n' { l.push(c); } } }
            if l.iter().all(|c| (*c as char).is_whitespace()) { l.push(b'f'); }
            l = crate::dict::dictify_bytes(rng, &l, 12);
            l.retain(|c| *c != b'\n');
        }
        4 => {}
        5 => l.extend_from_slice(rng.pick_str(&[" ", "\t", "  \t "]).as_bytes()),
        6 => { l.extend_from_slice(rng.pick_str(&["@", "@foo", "@CWD", "@cwd/x", "@ ignore", "@\u{e9}"]).as_bytes()); if rng.chance(1, 2) { l.push(b' '); l.extend_from_slice(&arg(rng)); } }
        _ => {
            l.extend_from_slice(rng.pick_str(&CMDS).as_bytes());
            match rng.below(6) {
                0 => {}
                1 => l.push(b' '),
                2 => { l.extend_from_slice(b"  \t"); l.extend_from_slice(&arg(rng)); }
                3 => { l.push(b' '); l.extend_from_slice(*rng.pick(&[&b"\x0b"[..], &b"\x0c\r"[..], &b"\t\x0b "[..], &b"\r"[..]])); if rng.chance(3, 4) { l.extend_from_slice(&arg(rng)); } }
                _ => { l.push(b' '); l.extend_from_slice(&arg(rng)); }
            }
        }
    }
    l
}

/// mostly valid lists (so that parsing succeeds and the views are exercised)
pub fn good_line(rng: &mut Rng) -> Vec<u8> {
    let dir = |rng: &mut Rng| -> Vec<u8> { if rng.chance(1, 80) { let mut d = b"/opt/".to_vec(); d.extend(std::iter::repeat(b'd').take(threshold(rng, 5000))); return d; } match rng.below(6) { 0 => b"/usr/pkg".to_vec(), 1 => b"/opt/".to_vec(), 2 => vec![b'/', 0xe9], 3 => vec![b'/', b'c', 0xe9, b'/'], 4 => "/d\u{e9}/".as_bytes().to_vec(), _ => b"rel/dir".to_vec() } };
    match rng.below(16) {
        // (scale: now and then a path longer than a 1 KiB / 4 KiB path buffer, in a list that parses)
        0..=4 => { let mut f: Vec<u8> = rng.pick_str(&["bin/a", "b", "man/man1/x.1", "lib/\u{e9}.so", "c"]).as_bytes().to_vec(); if rng.chance(1, 8) { f.push(0xf8); }
                   if rng.chance(1, 100) { let k = threshold(rng, 5000); f = b"share/".to_vec(); f.extend(std::iter::repeat(b'g').take(k)); }
                   // (a literal in or as the file name - but not one that turns the line into a command or a
                   // blank line: a "good" list of a thousand lines has to stay one that parses)
                   let orig = f.clone();
                   let mut f = crate::dict::dictify_bytes(rng, &f, 25); f.retain(|c| *c != b'\n');
                   if f.first() == Some(&b'@') || f.iter().all(|c| (*c as char).is_whitespace()) { orig } else { f } }
        5..=6 => b"@ignore".to_vec(),
        7..=8 => { let mut l = b"@cwd ".to_vec(); l.extend_from_slice(&dir(rng)); l }
        9 => b"@exec echo %F".to_vec(),
        10 => b"@unexec rm -f %D/x".to_vec(),
        11 => rng.pick_str(&["@mode 0755", "@mode", "@owner root", "@group", "@group wheel"]).as_bytes().to_vec(),
        12 => rng.pick_str(&["@pkgdir share/x", "@dirrm share/y", "@pkgdir z"]).as_bytes().to_vec(),
        13 => rng.pick_str(&["@name pkg-1.0", "@name other-2", "@display MESSAGE", "@display M2"]).as_bytes().to_vec(),
        14 => rng.pick_str(&["@pkgdep a>=1", "@blddep b-[0-9]*", "@pkgcfl c<2", "@option preserve"]).as_bytes().to_vec(),
        _ => rng.pick_str(&["@comment $NetBSD$", "@comment", "", "  "]).as_bytes().to_vec(),
    }
}

pub fn plist(rng: &mut Rng) -> Vec<u8> {
    let good = rng.chance(3, 4);
    // scale: more lines than a batch / a 64-entry block (the 65th, 1025th, ... line matters)
    let n = if rng.chance(1, 60) { *rng.pick(&[64usize, 65, 66, 129, 130, 1024, 1025, 1026, 2051]) } else if rng.chance(1, 10) { rng.range(20, 60) } else { rng.range(0, 12) };
    let mut t: Vec<u8> = vec![];
    let crlf = rng.chance(1, 10);
    for _ in 0..n {
        t.extend_from_slice(&if good { good_line(rng) } else { line(rng) });
        if crlf { t.push(b'\r'); }
        t.push(b'\n');
    }
    if rng.chance(1, 2) { t.pop(); }
    t
}
