//! Random patterns (dewey, glob, plain, brace trees with dewey/glob tails) and names
//! derived from them (one expansion path, then mutated) so that matches are frequent.
use super::versions;
use crate::util::{rare_char, sprinkle, threshold, Rng, UNI_DIGITS};

const BASES: [&str; 14] = ["a", "ab", "foo", "py39-x", "a-b", "a-b-c", "é", "f-é", "lib2", "p5-X", "x", "", "-", "b1"];
const OPS: [&str; 4] = [">", ">=", "<", "<="];

pub fn base(rng: &mut Rng) -> String {
    // scale: a base longer than a pattern buffer or a 16-bit offset could hold
    if rng.chance(1, 400) {
        // (glob patterns are parsed and matched by recursion in the specification: up to 5000 here,
        // the 64 KiB range only for comparison patterns, see dewey())
        let n = threshold(rng, 5000);
        let mut b: String = "longbase-".to_string();
        b.push_str(&"x".repeat(n.saturating_sub(9)));
        return b;
    }
    let b: String = if rng.chance(3, 4) {
        rng.pick(&BASES).to_string()
    } else {
        let n = rng.range(1, 6);
        (0..n).map(|_| *rng.pick(&['a', 'b', 'c', '-', '1', 'x', 'é', '+', '.'])).collect()
    };
    // rare values: e.g. a character whose code point ends in the byte of '{' or '<'
    let b = sprinkle(rng, &b, 12);
    crate::dict::dictify(rng, &b, 25)
}

fn near_base(rng: &mut Rng, b: &str) -> String {
    let cs: Vec<char> = b.chars().collect();
    match rng.below(7) {
        0 => format!("{}x", b),
        1 => format!("x{}", b),
        2 if !cs.is_empty() => cs[..cs.len() - 1].iter().collect(),
        3 if !cs.is_empty() => cs[1..].iter().collect(),
        4 => format!("{}-", b),
        5 => format!("{}-{}", b, b),
        _ => b.to_uppercase(),
    }
}

fn simple_version(rng: &mut Rng) -> String {
    loop {
        let v = match rng.below(4) {
            0 => rng.pick(&["1", "1.0", "2", "1.0nb1", "0", "1.0alpha", "1.0rc1", "10", "1.1", "2.0beta3", "1a", ""]).to_string(),
            _ => versions::version(rng, false),
        };
        if !v.contains(['<', '>', '{', '}', '-', ',', '*', '?', '[', ']']) && !v.starts_with('=') {
            return v;
        }
    }
}

/// dewey pattern text and a list of interesting names for it
pub fn dewey(rng: &mut Rng) -> (String, Vec<String>) {
    let b = if rng.chance(1, 1000) { format!("verylongbase-{}", "y".repeat(*rng.pick(&[65522usize, 65523, 65524, 70000]))) } else { base(rng) };
    let v1 = simple_version(rng);
    let v2 = simple_version(rng);
    let shape = if rng.chance(1, 200) { 10 } else { rng.below(10) };
    let p = match shape {
        // scale: more operators than a narrow counter holds (always a rejected pattern)
        10 => { let k = *rng.pick(&[3usize, 4, 255, 256, 257, 258, 513, 514]); format!("{}{}", b, (0..k).map(|_| format!("{}{}", rng.pick(&OPS), rng.pick(&["1", "2", "3.0"]))).collect::<String>()) }
        0..=3 => format!("{}{}{}", b, rng.pick(&OPS), v1),
        4..=6 => format!("{}{}{}{}{}", b, rng.pick(&[">", ">="]), v1, rng.pick(&["<", "<="]), v2),
        7 => format!("{}{}{}{}{}", b, rng.pick(&OPS), v1, rng.pick(&OPS), v2),
        8 => format!("{}{}{}{}{}{}{}", b, rng.pick(&OPS), v1, rng.pick(&OPS), v2, rng.pick(&OPS), v1),
        _ => format!("{}{}{}{}", b, rng.pick(&OPS), rng.pick(&OPS), v1),
    };
    let mut names = vec![];
    // (a base of 65 000 bytes: two names, so that the record stays within the quick tier's size budget)
    for _ in 0..if b.len() > 60000 { 2 } else { rng.range(3, 8) } {
        let nb = if rng.chance(2, 3) || b.len() > 60000 { b.clone() } else { near_base(rng, &b) };
        let nv = match rng.below(5) {
            0 => v1.clone(),
            1 => v2.clone(),
            2 => versions::mutate(rng, &v1, false),
            3 => versions::mutate(rng, &v2, false),
            _ => simple_version(rng),
        };
        names.push(match rng.below(8) {
            0 => nb.clone(),
            1 => format!("{}{}", nb, nv),
            _ => format!("{}-{}", nb, nv),
        });
    }
    (p, names)
}

const GLOB_ITEMS: [&str; 12] = ["*", "?", "[0-9]", "[a-z]", "[!0-9]", "[ab]", "[!a]", "[0-9]*", "a", "b", "-", "1"];

/// glob inside the judged subset, plus one name instantiating it and mutations
pub fn glob(rng: &mut Rng) -> (String, Vec<String>) {
    let n = rng.range(1, 8);
    let mut p = String::new();
    let mut inst = String::new();
    let mut last_star = false;
    for _ in 0..n {
        let it = *rng.pick(&GLOB_ITEMS);
        if last_star && it.starts_with('*') {
            continue;
        }
        last_star = it.ends_with('*');
        p.push_str(it);
        match it {
            "*" => inst.push_str(*rng.pick(&["", "x", "1.0", "-2", "é"])),
            "?" => inst.push(*rng.pick(&['x', '1', '-', 'é'])),
            // a numeric character that is not an ASCII digit is not in [0-9]
            "[0-9]" => inst.push(if rng.chance(1, 12) { *rng.pick(&UNI_DIGITS) } else { *rng.pick(&['0', '5', '9']) }),
            "[0-9]*" => if rng.chance(1, 12) { inst.push(*rng.pick(&UNI_DIGITS)); inst.push_str(".0"); } else { inst.push_str(*rng.pick(&["0", "5.1", "9nb1"])) },
            "[a-z]" => inst.push(*rng.pick(&['a', 'm', 'z'])),
            "[!0-9]" => inst.push(*rng.pick(&['a', '-', 'é'])),
            "[ab]" => inst.push(*rng.pick(&['a', 'b'])),
            "[!a]" => inst.push(*rng.pick(&['b', '1'])),
            lit => inst.push_str(lit),
        }
    }
    if !p.contains(['*', '?', '[']) {
        p.push('*');
    }
    let mut names = vec![inst.clone()];
    for _ in 0..rng.range(2, 6) {
        names.push(mutate_name(rng, &inst));
    }
    (p, names)
}

pub fn mutate_name(rng: &mut Rng, n: &str) -> String {
    let mut cs: Vec<char> = n.chars().collect();
    match rng.below(8) {
        0 if !cs.is_empty() => { cs[0] = *rng.pick(&['a', 'b', 'x', '1', '-']); }
        1 if cs.len() > 1 => { cs[1] = *rng.pick(&['a', 'b', 'x', '1', '-']); }
        2 if !cs.is_empty() => { let i = rng.below(cs.len()); cs.remove(i); }
        3 => { let i = rng.below(cs.len() + 1); let c = if rng.chance(1, 8) { rare_char(rng) } else { *rng.pick(&['a', '1', '-', 'x', 'é', '.']) }; cs.insert(i, c); }
        4 if !cs.is_empty() => { let i = rng.below(cs.len()); cs[i] = *rng.pick(&['a', '1', '-', 'x', '9', 'B']); }
        5 => { cs.truncate(rng.below(3)); }
        6 => { cs.push(*rng.pick(&['a', '1', '-'])); }
        _ => {}
    }
    cs.into_iter().collect()
}

/// brace tree: returns (pattern text, one random expansion of it)
fn tree(rng: &mut Rng, depth: usize, budget: &mut usize) -> (String, String) {
    let items = rng.range(1, 3);
    let (mut p, mut e) = (String::new(), String::new());
    for _ in 0..items {
        if depth > 0 && *budget > 1 && rng.chance(1, 2) {
            let alts = rng.range(1, 3);
            *budget = budget.saturating_sub(alts);
            let chosen = rng.below(alts);
            p.push('{');
            for a in 0..alts {
                if a > 0 {
                    p.push(',');
                }
                if rng.chance(1, 6) {
                    continue; // empty alternative
                }
                let (sp, se) = tree(rng, depth - 1, budget);
                p.push_str(&sp);
                if a == chosen {
                    e.push_str(&se);
                }
            }
            p.push('}');
        } else {
            let lit = *rng.pick(&["a", "b", "foo", "-", "c", "x1", "é", "ab", ","]);
            p.push_str(lit);
            e.push_str(lit);
        }
    }
    (p, e)
}

/// scale: nesting deeper than a narrow counter, more expansions than a bounded table
fn brace_scale(rng: &mut Rng) -> (String, Vec<String>) {
    match rng.below(4) {
        0 => {
            let d = *rng.pick(&[255usize, 256, 257, 300]);
            (format!("{}foo{}-1.0", "{".repeat(d), "}".repeat(d)), vec!["foo-1.0".into(), "foo-1.1".into(), "foo".into()])
        }
        1 => {
            // not properly nested, by a number of braces that only a wide counter sees
            let (o, c) = *rng.pick(&[(300usize, 255usize), (256, 255), (255, 256), (257, 1), (512, 256)]);
            (format!("{}foo{}-1.0", "{".repeat(o), "}".repeat(c)), vec!["foo-1.0".into()])
        }
        2 => {
            // 2^k expansions; the matching one is among the last
            let k = *rng.pick(&[5usize, 8, 12, 13, 17]);
            if k == 17 {
                // 2^17 expansions (more than a 16-bit counter or a 65 536-entry budget holds): only
                // names that match, the last expansion and the first (a name that matches nothing
                // makes the specification try all 131 072)
                return (format!("{}-1.0", "{a,b}".repeat(k)), vec![format!("{}-1.0", "b".repeat(k)), format!("{}-1.0", "a".repeat(k))]);
            }
            let name: String = (0..k).map(|i| if i + 1 == k || rng.chance(1, 2) { 'b' } else { 'a' }).collect();
            (format!("{}-[0-9]*", "{a,b}".repeat(k)), vec![format!("{}-1.0", name), format!("{}c-1.0", &name[1..]), format!("{}-x", name)])
        }
        _ => {
            // one group with many alternatives
            let k = *rng.pick(&[17usize, 33, 65, 257, 300]);
            let alts: Vec<String> = (0..k).map(|i| format!("p{}", i)).collect();
            (format!("{{{}}}-[0-9]*", alts.join(",")), vec![format!("p{}-1", k - 1), format!("p{}-2.0", k / 2), format!("p{}-1", k), "p0-1".into()])
        }
    }
}

pub fn brace(rng: &mut Rng) -> (String, Vec<String>) {
    if rng.chance(1, 250) {
        return brace_scale(rng);
    }
    let mut budget = 6;
    let depth = rng.range(1, 3);
    let (mut p, mut e) = tree(rng, depth, &mut budget);
    let v = simple_version(rng);
    let mut names = vec![];
    match rng.below(6) {
        0 => {}
        1 => { p.push_str("-[0-9]*"); e.push('-'); e.push_str(*rng.pick(&["1.0", "2", "0nb1"])); }
        2 => { p.push_str(&format!(">={}", v)); e.push('-'); e.push_str(&versions::mutate(rng, &v, false).replace('-', "")); }
        3 => { p.push_str(&format!(">{}<{}", v, simple_version(rng))); e.push('-'); e.push_str(&v); }
        4 => { p.push_str(&format!("-{}", v)); e.push('-'); e.push_str(&v); }
        _ => {
            // deliberately unbalanced or oddly ordered
            let cs: Vec<char> = p.chars().collect();
            if !cs.is_empty() {
                let i = rng.below(cs.len());
                let mut c2 = cs.clone();
                match rng.below(3) { 0 => { c2.remove(i); } 1 => c2.insert(i, '}'), _ => c2.insert(i, '{') }
                p = c2.into_iter().collect();
            }
        }
    }
    names.push(e.clone());
    for _ in 0..rng.range(2, 6) {
        names.push(mutate_name(rng, &e));
    }
    (p, names)
}

pub fn plain(rng: &mut Rng) -> (String, Vec<String>) {
    let p = format!("{}-{}", base(rng), simple_version(rng));
    let names = vec![p.clone(), mutate_name(rng, &p), mutate_name(rng, &p), p.to_uppercase()];
    (p, names)
}

pub fn any(rng: &mut Rng) -> (String, Vec<String>) {
    let pn = match rng.below(10) {
        0..=2 => dewey(rng),
        3..=4 => glob(rng),
        5..=8 => brace(rng),
        _ => plain(rng),
    };
    tail(rng, pn)
}

/// now and then a literal of the code under test (or a line end, a blank ...) at the end of the
/// pattern, and the names with and without it
pub fn tail(rng: &mut Rng, pn: (String, Vec<String>)) -> (String, Vec<String>) {
    let (p, mut names) = pn;
    if rng.chance(1, 30) {
        let t = crate::dict::token(rng);
        let with: Vec<String> = names.iter().take(3).map(|n| format!("{}{}", n, t)).collect();
        names.extend(with);
        names.push(p.clone());
        names.push(format!("{}{}", p, t));
        return (format!("{}{}", p, t), names);
    }
    (p, names)
}

/// related patterns (same / near-miss bases, different bounds) and names for them, with
/// repeated names, for the matrix (history independence) check
pub fn matrix(rng: &mut Rng) -> (Vec<String>, Vec<String>) {
    // (every pattern is matched against every name: very long bases are left to the other drivers)
    let b = loop { let b = base(rng); if b.len() <= 1100 { break b; } };
    let nb = near_base(rng, &b);
    let vs: Vec<String> = (0..4).map(|_| simple_version(rng)).collect();
    let mut ps = vec![];
    for _ in 0..rng.range(2, 5) {
        let bb = match rng.below(3) { 0 => nb.clone(), _ => b.clone() };
        ps.push(match rng.below(6) {
            0 => format!("{}{}{}", bb, rng.pick_str(&OPS), rng.pick(&vs)),
            1 => format!("{}>={}<{}", bb, rng.pick(&vs), rng.pick(&vs)),
            2 => format!("{}-[0-9]*", bb),
            3 => format!("{{{},{}}}>={}", b, nb, rng.pick(&vs)),
            4 => format!("{}-{}", bb, rng.pick(&vs)),
            _ => { let v0 = rng.pick(&vs).clone(); let m = versions::mutate(rng, &v0, false).replace(['<', '>', '{', '}', '-'], ""); format!("{}{}{}", bb, rng.pick_str(&OPS), m) }
        });
    }
    let mut ns = vec![];
    for _ in 0..rng.range(3, 7) {
        let bb = match rng.below(4) { 0 => nb.clone(), _ => b.clone() };
        let v = match rng.below(3) { 0 => format!("{}nb{}", rng.pick(&vs), rng.below(5)), _ => rng.pick(&vs).clone() };
        ns.push(format!("{}-{}", bb, v));
        if rng.chance(1, 3) { let last = ns.last().unwrap().clone(); ns.push(last); }
    }
    // a shuffle so that equal names are not always adjacent
    for i in (1..ns.len()).rev() { let j = rng.below(i + 1); ns.swap(i, j); }
    // twins: two names, next to each other, whose versions differ only by a character that Unicode
    // case folding identifies with an ASCII letter (KELVIN SIGN / k, dotted capital I / i + dot
    // above) or by the case of a letter - the rule ignores the first and folds only ASCII
    if rng.chance(1, 5) {
        let v = rng.pick(&vs).clone();
        let (x, y) = *rng.pick(&[("k", "\u{212a}"), ("K", "\u{212a}"), ("i\u{307}", "\u{130}"), ("a", "A"), ("s", "\u{17f}"), ("ss", "\u{df}")]);
        let (x, y) = if rng.chance(1, 2) { (x, y) } else { (y, x) };
        let at = rng.below(ns.len() + 1);
        ns.insert(at, format!("{}-{}{}", b, v, y));
        ns.insert(at, format!("{}-{}{}", b, v, x));
    }
    (ps, ns)
}
