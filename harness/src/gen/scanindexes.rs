//! Random pbulk-index outputs.
use super::{names, patterns};
use crate::util::*;

const KEYS: [&str; 15] = ["PKGNAME", "PKG_LOCATION", "ALL_DEPENDS", "PKG_SKIP_REASON", "PKG_FAIL_REASON", "NO_BIN_ON_FTP",
    "RESTRICTED", "CATEGORIES", "MAINTAINER", "USE_DESTDIR", "BOOTSTRAP_PKG", "USERGROUP_PHASE", "SCAN_DEPENDS",
    "PBULK_WEIGHT", "MULTI_VERSION"];

fn good_path(rng: &mut Rng) -> String {
    format!("{}{}/{}", if rng.chance(1, 2) { "../../" } else { "" }, rng.pick_str(&["devel", "www", "x11", "pkgtools"]), rng.pick_str(&["a", "foo", "py-b", "lib2"]))
}
fn dep(rng: &mut Rng, bad: bool) -> String {
    if bad {
        return rng.pick_str(&["oops", "a>1>2:devel/a", "foo-[0-9]*:bad", "x::devel/a", "{a:devel/a", "b>=1:cat/..", "b>=1:../../cat/.", "b-[0-9]*:devel/a:"]).to_string();
    }
    let p = match rng.below(3) { 0 => patterns::dewey(rng).0, 1 => format!("{}-[0-9]*", patterns::base(rng)), _ => format!("{{{},{}}}-[0-9]*", "a", "b") };
    let p: String = p.chars().filter(|c| !c.is_whitespace() && *c != ':').collect();
    format!("{}:{}", p, good_path(rng))
}

/// lines of a file with `records` records; `fault`: 0 none, 1 missing PKGNAME block, 2 bad dependency, 3 bad location
pub fn err_kind(rng: &mut Rng) -> &'static str {
    rng.pick_str(&["Other", "Other", "WouldBlock", "TimedOut", "BrokenPipe", "Interrupted", "UnexpectedEof"])
}

pub fn lines(rng: &mut Rng) -> (Vec<String>, usize, bool) {
    let records = if rng.chance(1, 10) { rng.range(10, 30) } else { rng.range(0, 5) };
    let fault = if rng.chance(1, 4) { rng.range(1, 3) } else { 0 };
    let fault_rec = rng.below(records.max(1));
    let mut out = vec![];
    if fault == 1 && rng.chance(1, 2) {
        out.push("CATEGORIES=orphan".to_string());
    }
    for r in 0..records {
        let tag = format!("r{}", r);
        out.push(format!("{}PKGNAME={}{}", if rng.chance(1, 8) { "  " } else { "" }, names::pkgname(rng).replace(char::is_whitespace, ""), if rng.chance(1, 8) { " \t" } else { "" }));
        let nkeys = rng.range(0, 8);
        for _ in 0..nkeys {
            let k = KEYS[rng.range(1, 14)];
            let v = match k {
                "PKG_LOCATION" => if fault == 3 && r == fault_rec { rng.pick_str(&["bad", "a/b/c", "../x/y", "", "cat/..", "./pkg", "../../cat/..", "cat/."]).to_string() } else { good_path(rng) },
                // scale: more distinct dependencies than a cache has slots, then the first ones again
                "ALL_DEPENDS" if rng.chance(1, 400) => {
                    let mut v: Vec<String> = (0..1100).map(|i| format!("lib{:05}>=1:../../devel/lib{:05}", i, i)).collect();
                    v.push("lib00000>=1:../../devel/lib00000".into());
                    v.push("lib00001>=1:../../devel/lib00001".into());
                    v.join(" ")
                }
                "ALL_DEPENDS" => (0..rng.below(4)).map(|_| dep(rng, false)).collect::<Vec<_>>().join(rng.pick_str(&[" ", "  ", "\t"])),
                // scale: a line longer than 64 KiB
                "SCAN_DEPENDS" => (0..if rng.chance(1, 150) { 3000 } else { rng.below(4) }).map(|i| format!("/usr/pkgsrc/mk/{}-{}.mk", tag, i)).collect::<Vec<_>>().join(" "),
                "MULTI_VERSION" => (0..rng.below(3)).map(|i| format!("PYTHON_VERSION_REQD={}{}", tag, i)).collect::<Vec<_>>().join(" "),
                _ => match rng.below(5) { 0 => String::new(), 1 => format!("{} with = sign", tag), 2 => format!("{} é", tag), _ => format!("{}-{}", tag, rng.below(100)) },
            };
            // a literal of the code under test as (part of) the key - an unknown key that looks
            // like a known one - or of the value
            let k: String = crate::dict::dictify(rng, k, 25).replace(['\n', '\r'], "");
            let v: String = if k == "PKG_LOCATION" || k == "ALL_DEPENDS" { v } else { crate::dict::dictify(rng, &v, 25).replace(['\n', '\r'], "") };
            let k = k.as_str();
            out.push(format!("{}{}={}{}{}", if rng.chance(1, 10) { " " } else { "" }, k, if rng.chance(1, 10) { " " } else { "" }, v, if rng.chance(1, 10) { "  " } else { "" }));
            if rng.chance(1, 8) { out.push(rng.pick_str(&["", "   ", "no equals sign", "UNKNOWN_KEY=zzz", "# comment"]).to_string()); }
            if rng.chance(1, 25) { out.push(format!("{}={}", crate::dict::token(rng).replace(['\n', '\r', '='], ""), rng.pick_str(&["devel/a", "x", "", "../../www/b", "bad path"]))); }
        }
        if fault == 2 && r == fault_rec {
            out.push(format!("ALL_DEPENDS={}", dep(rng, true)));
        }
    }
    let err = if rng.chance(1, 6) { rng.range(1, out.len() + 1) } else { 0 };
    (out, err, rng.chance(3, 4))
}
