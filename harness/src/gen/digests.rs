//! Inputs and read schedules for the digest wrappers.
use crate::util::*;
use serde_json::{json, Value};

/// scale: more bytes than an internal buffer (8 KiB, 64 KiB), lines longer than one, with the
/// marker early, late, or exactly across a buffer boundary
pub fn big_data(rng: &mut Rng) -> Vec<u8> {
    let bound = *rng.pick(&[4096usize, 8192, 8192, 8192, 16384, 32768, 65536, 65536, 65536, 131072]);
    let variant = rng.below(5);
    big_data_with(rng, bound, variant)
}
pub fn big_data_with(rng: &mut Rng, bound: usize, variant: usize) -> Vec<u8> {
    let mut out: Vec<u8> = vec![];
    let fill = |out: &mut Vec<u8>, n: usize, rng: &mut Rng| { for _ in 0..n { out.push(*rng.pick(b"abcdefgh 0123456789+-")); } };
    // the boundary of an internal buffer the input is built around (no larger than needed: TLC
    // validates every byte)
    match variant {
        // one very long line with the marker lying across / next to the boundary
        0 => {
            let at = (bound as i64 + *rng.pick(&[-9i64, -8, -7, -4, -1, 0, 1, -4000])) as usize;
            fill(&mut out, at, rng);
            out.extend_from_slice(b"$NetBSD$");
            let n = rng.range(0, 120);
            fill(&mut out, n, rng);
            if rng.chance(1, 2) { out.push(b'\n'); }
            out.extend_from_slice(b"after\n");
        }
        // ordinary lines up to just before the boundary, then a marker line that starts before
        // it and ends after it (the marker itself before, across or behind the boundary)
        1 => {
            let lead = *rng.pick(&[0usize, 2, 30]);           // text in front of the marker on its line
            let start = bound - *rng.pick(&[1usize, 3, 7, 8, 12, 40]).min(&bound);
            while out.len() + 100 < start.saturating_sub(lead) {
                if rng.chance(1, 30) { out.extend_from_slice(b"+ $NetBSD: x $"); }
                let n = rng.range(0, 90);
                fill(&mut out, n, rng);
                out.push(b'\n');
            }
            while out.len() + 1 < start.saturating_sub(lead) { out.push(b'p'); }
            out.push(b'\n');
            fill(&mut out, lead, rng);
            out.extend_from_slice(b"$NetBSD: patch-aa,v 1.3 2024/01/01 00:00:00 joe Exp $");
            let n = rng.range(0, 60);
            fill(&mut out, n, rng);
            out.push(b'\n');
            for _ in 0..rng.range(0, 3) { let n = rng.range(0, 60); fill(&mut out, n, rng); out.push(b'\n'); }
            if rng.chance(1, 2) { out.extend_from_slice(b"unterminated"); }
        }
        // many ordinary lines, some with the marker
        2 => {
            let total = threshold(rng, 70000).max(4097);
            while out.len() < total {
                if rng.chance(1, 9) { out.extend_from_slice(b"+ $NetBSD: x $"); }
                let n = rng.range(0, 90);
                fill(&mut out, n, rng);
                out.push(b'\n');
            }
        }
        // a long line without the marker, then marker lines
        3 => {
            let total = threshold(rng, 70000).max(4097);
            fill(&mut out, total, rng);
            out.extend_from_slice(b"\n$NetBSD$\nlast");
        }
        // binary
        _ => { let total = threshold(rng, 70000).max(4097); for _ in 0..total { out.push(rng.below(256) as u8); } }
    }
    out
}

pub fn data(rng: &mut Rng, maxlen: usize) -> Vec<u8> {
    let mut out = vec![];
    if rng.chance(1, 3) {
        // binary blob around a block boundary
        let len = *rng.pick(&[0usize, 1, 55, 56, 63, 64, 65, 119, 120, 127, 128, 129, 200, 1000]);
        for _ in 0..len.min(maxlen) {
            out.push(rng.below(256) as u8);
        }
        return out;
    }
    let lines = rng.range(0, 12);
    for _ in 0..lines {
        match rng.below(8) {
            0 => out.extend_from_slice(b"$NetBSD: patch-aa,v 1.1 2024/01/01 00:00:00 joe Exp $"),
            1 => out.extend_from_slice(b"x $NetBSD$ y"),
            2 => out.extend_from_slice(*rng.pick(&[&b"$NetBS D $Net"[..], &b"NetBSD needs <sys/param.h> here"[..], &b"x NetBSD$ y"[..], &b"$ NetBSD"[..], &b"NetBSD"[..], &b"$$NetBSD"[..], &b"$netbsd$"[..]])),
            3 => {}
            4 => out.extend_from_slice("--- a/fil\u{e9}.c\t2024".as_bytes()),
            5 => out.extend_from_slice(&[0xff, 0x00, b'$', b'N']),
            _ => {
                for _ in 0..rng.range(1, 70) {
                    out.push(*rng.pick(b"abc $NetBSD+-@\t0123456789"));
                }
            }
        }
        if rng.chance(1, 20) { out.push(b'\r'); }
        out.push(b'\n');
    }
    if rng.chance(1, 3) {
        out.pop(); // no final newline
    }
    if rng.chance(1, 6) {
        out.extend_from_slice(b"tail $NetBSD");
    }
    out.truncate(maxlen);
    out
}

/// a schedule that delivers exactly `len` bytes: read sizes by style, Interrupted sprinkled,
/// optionally one hard error at a random point
pub fn schedule(rng: &mut Rng, d: &[u8]) -> Value {
    let len = d.len();
    let style = rng.below(5);
    let mut evs: Vec<Value> = vec![];
    let mut pos = 0;
    let err_at = if rng.chance(1, 6) { Some(rng.below(len + 1)) } else { None };
    let mut erred = false;
    while pos < len {
        if let Some(e) = err_at {
            if !erred && pos >= e {
                evs.push(json!(["err", rng.below(7)]));
                erred = true;
                break;
            }
        }
        if rng.chance(1, 7) {
            evs.push(json!(["intr", 0]));
        }
        let k = match style {
            0 if len <= 300 => 1,
            1 => rng.range(1, 3),
            2 => rng.range(1, 17),
            3 => {
                // stop right inside the next marker / before the next newline
                let rest = &d[pos..];
                let m = rest.windows(7).position(|w| w == b"$NetBSD").map(|i| i + rng.range(1, 6));
                let n = rest.iter().position(|c| *c == b'\n').map(|i| i + rng.below(2));
                match (m, n) { (Some(a), _) if rng.chance(1, 2) => a.max(1), (_, Some(b)) => b.max(1), (Some(a), None) => a.max(1), _ => rng.range(1, 64) }
            }
            _ if len > 4096 => *rng.pick(&[4096usize, 8192, 8192, 16384, 65536, 70000, 1, 8191, 8193]),
            _ => rng.range(1, 600),
        };
        let k = k.min(len - pos);
        evs.push(json!(["read", k]));
        pos += k;
    }
    if !erred {
        if err_at == Some(len) {
            evs.push(json!(["err", rng.below(7)]));
        } else {
            if rng.chance(1, 7) { evs.push(json!(["intr", 0])); }
            evs.push(json!(["eof", 0]));
        }
    }
    Value::Array(evs)
}

pub fn case(rng: &mut Rng) -> Value {
    case_i(rng, u64::MAX)
}
/// the first four cases of a run are the two boundary shapes around 64 KiB and 8 KiB, as patches
pub fn case_i(rng: &mut Rng, i: u64) -> Value {
    if i < 4 {
        let d = big_data_with(rng, if i < 2 { 65536 } else { 8192 }, (i % 2) as usize);
        // (a plain schedule: a byte-at-a-time schedule of 65 000 reads would not fit the size budget)
        let sched = if rng.chance(1, 2) { json!([["read", d.len()], ["eof", 0]]) } else { { let k = d.len().min(8192); json!([["read", k], ["read", d.len() - k], ["eof", 0]]) } };
        return json!({"mode": "patch", "data": bytes_json(&d), "sched": sched});
    }
    let d = if rng.chance(1, 120) { big_data(rng) } else { data(rng, 1500) };
    let mode = if rng.chance(1, 2) { "patch" } else { "plain" };
    json!({"mode": mode, "data": bytes_json(&d), "sched": schedule(rng, &d)})
}

pub fn algname(rng: &mut Rng) -> String {
    let base = *rng.pick(&["BLAKE2s", "MD5", "RMD160", "SHA1", "SHA256", "SHA512", "SHA384", "blake2", "SHA-1", "", "sha1 ", "md4", "SHA3_512", "rmd-160"]);
    base.chars().map(|c| if rng.chance(1, 2) { c.to_ascii_uppercase() } else { c.to_ascii_lowercase() }).collect()
}

/// lengths around the block boundaries of all six functions, plus multi-KiB
pub fn vector(rng: &mut Rng, i: u64) -> Vec<u8> {
    const LENS: [usize; 16] = [0, 1, 55, 56, 63, 64, 65, 111, 112, 119, 120, 127, 128, 129, 4096, 70000];
    let len = LENS[(i as usize) % LENS.len()];
    let ascii = (i / LENS.len() as u64) % 2 == 0;
    (0..len).map(|_| if ascii { b' ' + rng.below(95) as u8 } else { rng.below(256) as u8 }).collect()
}
