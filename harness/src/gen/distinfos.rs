//! Random distinfo texts, API assemblies and verification scenarios.
use crate::util::*;
use serde_json::{json, Value};

const ALGN: [&str; 6] = ["BLAKE2s", "MD5", "RMD160", "SHA1", "SHA256", "SHA512"];

/// a file name over arbitrary non-blank bytes (no ASCII whitespace, no newline, no parentheses
/// ambiguity is fine: '(' and ')' may occur inside)
pub fn name(rng: &mut Rng, patch: bool) -> Vec<u8> {
    let mut n: Vec<u8> = vec![];
    if rng.chance(1, 4) {
        for _ in 0..rng.range(1, 2) {
            n.extend_from_slice(rng.pick_str(&["sub", "a", "dist-1.0", "x.y"]).as_bytes());
            n.push(b'/');
        }
    }
    if patch {
        // (not "emul-patch-": there the "-patch-" of the rule starts inside the "emul-" prefix, the
        // code's substring test and the statement's glob emul-*-patch-* differ, and the name is not judged)
        n.extend_from_slice(rng.pick_str(&["patch-", "patch-", "emul-x-patch-", "emul-linux-patch-", "emul--patch-"]).as_bytes());
    } else if rng.chance(1, 6) {
        n.extend_from_slice(rng.pick_str(&["patch-local-", "foo.patch-", "patch-2.7.tar.", "xpatch-"]).as_bytes());
    }
    for _ in 0..rng.range(1, 10) {
        let c = match rng.below(6) {
            0 => rng.range(0x80, 0xff) as u8,
            1 => *rng.pick(b"()=#$-._~+"),
            2 => { n.extend_from_slice(&[0xc3, *rng.pick(&[0xa0u8, 0x85, 0xa9])]); continue; }
            _ => *rng.pick(b"abcdefgxyz0123456789"),
        };
        n.push(c);
    }
    // every exception of the patch rule also occurs on patch-shaped names (the specification
    // classifies; `patch` only chooses the shape)
    if rng.chance(1, 8) {
        n.extend_from_slice(rng.pick_str(&[".orig", ".rej", "~", ".tar.gz", ".tar.xz", ".tar.xz.sig", ".tar.gz.asc", ".tar", ".patch", ".tar.", ".orig.tar.gz"]).as_bytes());
    }
    // scale: a name that makes the line longer than a line buffer (1 KiB) or a 16-bit offset
    if rng.chance(1, 250) {
        let k = threshold(rng, 70000);
        let mut long: Vec<u8> = vec![b'L'; k];
        if rng.chance(1, 2) { long[k / 2] = 0xe9; }
        n.extend_from_slice(&long);
    }
    // a literal of the code under test in or as the name (kept only if the result is still a
    // blank-free name without a trailing '/', "//" or "." / ".." components)
    let d: Vec<u8> = crate::dict::dictify_bytes(rng, &n, 20);
    let ok = !d.is_empty() && !d.iter().any(|c| c.is_ascii_whitespace()) && d.last() != Some(&b'/')
        && d.split(|c| *c == b'/').all(|seg| !seg.is_empty() && seg != b"." && seg != b"..");
    // no trailing '/', no "//", no "." / ".." components
    if ok { d } else { n }
}
fn hash(rng: &mut Rng) -> String {
    // recorded hashes are text: kept exactly as written (upper case, odd characters included)
    (0..rng.range(1, 64)).map(|_| *rng.pick(&['0', '1', 'a', 'f', '9', 'c', 'A', 'F', 'E', 'x', '=', '(', ')'])).collect()
}
fn size(rng: &mut Rng) -> String {
    match rng.below(5) {
        // digits only, at and beyond the limit of u64 (beyond = an unparsable size)
        4 if rng.chance(1, 3) => { let l = limit_number(rng); if l.bytes().all(|c| c.is_ascii_digit()) { l } else { "18446744073709551616".into() } }
        0 => "0".into(),
        1 => "18446744073709551615".into(),
        2 => format!("{}", rng.next()),
        _ => format!("{}", rng.below(1000000)),
    }
}

/// canonical layout: RCS Id, blank, distfiles (checksums then size), patches (checksums)
pub fn canonical(rng: &mut Rng) -> Vec<u8> {
    let mut t: Vec<u8> = vec![];
    if rng.chance(1, 6) {
        t.extend_from_slice(b"$NetBSD$");
    } else {
        t.extend_from_slice(b"$NetBSD: ");
        for _ in 0..rng.range(0, 30) {
            let c = rng.below(256) as u8;
            if c != b'\n' { t.push(c); }
        }
    }
    t.extend_from_slice(b"\n\n");
    let mut used: Vec<Vec<u8>> = vec![];
    let many = rng.chance(1, 40);
    for patch in [false, true] {
        for _ in 0..if many { *rng.pick(&[17usize, 33, 70]) } else { rng.range(0, 3) } {
            let n = name(rng, patch);
            if used.contains(&n) { continue; }
            used.push(n.clone());
            let k = rng.range(if patch { 1 } else { 0 }, 3);
            for _ in 0..k {
                t.extend_from_slice(rng.pick_str(&ALGN).as_bytes());
                t.extend_from_slice(b" (");
                t.extend_from_slice(&n);
                t.extend_from_slice(format!(") = {}\n", hash(rng)).as_bytes());
            }
            if !patch && (k == 0 || rng.chance(5, 6)) {
                t.extend_from_slice(b"Size (");
                t.extend_from_slice(&n);
                t.extend_from_slice(format!(") = {} bytes\n", size(rng)).as_bytes());
            }
        }
    }
    t
}

/// arbitrary interleavings of recognised and ignorable lines (C11)
pub fn messy(rng: &mut Rng) -> Vec<u8> {
    // scale: more files than a "recent entries" window, lines of one file far apart
    let many = rng.chance(1, 40);
    let nnames = if many { *rng.pick(&[17usize, 18, 33, 65, 130]) } else { rng.range(1, 4) };
    let names: Vec<Vec<u8>> = (0..nnames).map(|i| name(rng, i % 2 == 1)).collect();
    let mut t: Vec<u8> = vec![];
    // something in front of the first line that is neither a blank nor part of an algorithm name:
    // a byte order mark, a literal of the code under test (the line is then not a recognised one)
    if rng.chance(1, 20) {
        if rng.chance(1, 2) { t.extend_from_slice(b"\xef\xbb\xbf"); }
        else { let mut d = crate::dict::token(rng).into_bytes(); d.retain(|c| *c != b'\n'); t.extend_from_slice(&d); }
    }
    let nlines = if many { nnames * 3 } else { rng.range(0, 14) };
    for li in 0..nlines {
        // first a line for every file in turn, then random ones: the first file's later lines
        // come after all the others'
        let _ = li;
        let n = if many && li < nnames { names[li].clone() } else if many && rng.chance(1, 3) { names[0].clone() } else { rng.pick(&names).clone() };
        let sp = |rng: &mut Rng| -> &'static str { rng.pick_str(&[" ", " ", "  ", "\t", " \t "]) };
        // scale: a run of blanks longer than a 16-bit offset between two fields
        let wide = rng.chance(1, 1500);
        if rng.chance(1, 5) { t.extend_from_slice(sp(rng).as_bytes()); }
        match rng.below(12) {
            0..=4 => {
                let a = rng.pick_str(&ALGN);
                let a: String = a.chars().map(|c| if rng.chance(1, 4) { c.to_ascii_lowercase() } else { c }).collect();
                t.extend_from_slice(a.as_bytes());
                t.extend_from_slice(sp(rng).as_bytes());
                t.push(b'('); t.extend_from_slice(&n); t.push(b')');
                if wide { t.extend_from_slice(&vec![b' '; 65600]); }
                t.extend_from_slice(sp(rng).as_bytes()); t.push(b'='); t.extend_from_slice(sp(rng).as_bytes());
                t.extend_from_slice(hash(rng).as_bytes());
            }
            5..=6 => {
                t.extend_from_slice(b"Size"); t.extend_from_slice(sp(rng).as_bytes());
                t.push(b'('); t.extend_from_slice(&n); t.push(b')');
                t.extend_from_slice(sp(rng).as_bytes()); t.push(b'='); t.extend_from_slice(sp(rng).as_bytes());
                t.extend_from_slice(size(rng).as_bytes());
                if rng.chance(4, 5) { t.extend_from_slice(b" bytes"); }
            }
            7 => t.extend_from_slice(b"# a comment (x) = y"),
            8 => {}
            9 => { t.extend_from_slice(b"SHA3 ("); t.extend_from_slice(&n); t.extend_from_slice(b") = abc"); }
            10 => { t.extend_from_slice(b"Size ("); t.extend_from_slice(&n);
                    if rng.chance(1, 2) { t.extend_from_slice(format!(") = {} bytes", limit_number(rng)).as_bytes()); }
                    else { t.extend_from_slice(rng.pick_str(&[") = 12x bytes", ") = 18446744073709551616 bytes", ") = -1 bytes"]).as_bytes()); } }
            _ => t.extend_from_slice(rng.pick_str(&["garbage", "SHA1 name = abc", "$NetBSD: x $", "hello (world) = x", "\u{e9} (x) = y"]).as_bytes()),
        }
        if rng.chance(1, 12) { t.push(b'\r'); }     // CRLF files: CR is a blank
        t.push(b'\n');
    }
    if rng.chance(1, 3) { t.pop(); }
    t
}

/// names to look up in a parsed text: the names it mentions, and near misses of them (a
/// directory in front, the last component alone, a longer name, a shorter one)
pub fn probes(text: &[u8], rng: &mut Rng) -> Vec<Vec<u8>> {
    let mut names: Vec<Vec<u8>> = vec![];
    for line in text.split(|c| *c == b'\n') {
        if let (Some(o), Some(c)) = (line.iter().position(|c| *c == b'('), line.iter().rposition(|c| *c == b')')) {
            if o < c && c - o < 300 && names.len() < 12 { let n = line[o + 1..c].to_vec(); if !names.contains(&n) { names.push(n); } }
        }
    }
    let mut ps = vec![];
    for n in names.clone() {
        ps.push(n.clone());
        let mut v = rng.pick_str(&["v2/", "sub/", "a/b/", "/"]).as_bytes().to_vec(); v.extend_from_slice(&n); ps.push(v);
        if let Some(k) = n.iter().rposition(|c| *c == b'/') { ps.push(n[k + 1..].to_vec()); }
        if rng.chance(1, 2) { let mut v = n.clone(); v.push(b'x'); ps.push(v); }
        if n.len() > 1 && rng.chance(1, 2) { ps.push(n[..n.len() - 1].to_vec()); }
    }
    // the tables are keyed by paths, and a path compares by components: "a/b/." = "a/b/" = "a//b" = "a/b".
    // Which of several spellings of one path a lookup finds is not what is asked here: a probe that
    // spells a recorded name differently is dropped (so is every probe if two recorded names are
    // spellings of one path)
    use std::os::unix::ffi::OsStrExt;
    let path = |b: &[u8]| std::path::PathBuf::from(std::ffi::OsStr::from_bytes(b));
    let rec: Vec<Vec<u8>> = names.clone();
    if rec.iter().any(|a| rec.iter().any(|b| a != b && path(a) == path(b))) { return vec![]; }
    ps.retain(|p| !rec.iter().any(|n| n != p && path(n) == path(p)));
    ps
}

/// does the name start like a patch (the specification decides the real classification; this
/// only keeps sizes off entries that are certainly patches)
fn patch_shaped(n: &[u8]) -> bool {
    let last = n.rsplit(|c| *c == b'/').next().unwrap_or(n);
    last.starts_with(b"patch-") || last.starts_with(b"emul-")
}

pub fn build(rng: &mut Rng) -> Value {
    let mut entries = vec![];
    let mut used: Vec<Vec<u8>> = vec![];
    for _ in 0..rng.range(0, 5) {
        let patch = rng.chance(1, 3);
        let n = if !used.is_empty() && rng.chance(1, 6) { used[rng.below(used.len())].clone() } else { name(rng, patch) };
        let patch = patch_shaped(&n);
        used.push(n.clone());
        let sums: Vec<Value> = (0..rng.range(if patch { 1 } else { 0 }, 3)).map(|_| json!([rng.range(1, 6), codes(&hash(rng))])).collect();
        // (an API-assembled entry holds a u64: only sizes that are one)
        let valid_size = |rng: &mut Rng| loop { let s = size(rng); if s.parse::<u64>().is_ok() { break s; } };
        let sz = if !patch && (sums.is_empty() || rng.chance(2, 3)) { json!([codes(&valid_size(rng))]) } else { json!([]) };
        // where the file lives on disk is not what distinfo records: a location whose last
        // component would classify differently from the recorded name
        let path: Vec<u8> = match rng.below(4) {
            0 => b"/tmp/work/Makefile.diff".to_vec(),
            1 => b"/usr/pkgsrc/cat/pkg/patches/patch-CVE-2024-0001".to_vec(),
            2 => { let mut v = b"../distfiles/".to_vec(); v.extend_from_slice(&n); v }
            _ => n.clone(),
        };
        entries.push(json!({"name": bytes_json(&n), "path": bytes_json(&path), "size": sz, "sums": sums}));
    }
    let rcsid = if rng.chance(1, 3) { json!([]) } else {
        let mut r = b"$NetBSD: ".to_vec();
        for _ in 0..rng.range(0, 20) { let c = rng.below(256) as u8; if c != b'\n' { r.push(c); } }
        json!([bytes_json(&r)])
    };
    json!({"rcsid": rcsid, "entries": entries})
}

pub fn verify(rng: &mut Rng) -> Value {
    let comp = |rng: &mut Rng| -> Vec<u8> { rng.pick_str(&["a", "b", "dist", "f.tgz", "x-1.0", "sub"]).as_bytes().to_vec() };
    // scale: recorded names nested deeper than a bounded walk would look
    let depth = if rng.chance(1, 30) { rng.range(8, 12) } else { rng.range(1, 4) };
    let mut path: Vec<Vec<u8>> = (0..depth - 1).map(|_| comp(rng)).collect();
    let patch = rng.chance(1, 3);
    path.push(if patch { format!("patch-{}", rng.pick_str(&["aa", "src_x.c", "Makefile"])).into_bytes() } else { rng.pick_str(&["f.tgz", "pkg-1.0.tar.gz", "data.bin", "patch-local-x", "patch-a.orig"]).as_bytes().to_vec() });
    let content = if rng.chance(1, if patch { 25 } else { 90 }) { super::digests::big_data(rng) } else { super::digests::data(rng, 800) };
    // now and then the file is overwritten in place after the first verification (same length,
    // same modification time, one byte changed) and verified again
    let rewrite = if !content.is_empty() && rng.chance(1, 4) { rng.range(1, content.len()) } else { 0 };
    let suffix = |n: usize| -> Vec<u8> { path[path.len() - n..].join(&b'/') };
    let mut lines = vec![];
    let mut names: Vec<Vec<u8>> = vec![];
    for _ in 0..rng.range(0, 3) {
        let nm = match rng.below(4) {
            0 => suffix(1),
            1 => suffix(rng.range(1, path.len())),
            2 => { let mut v = comp(rng); v.push(b'/'); v.extend_from_slice(&suffix(1)); v }
            _ => { let mut v = suffix(1); v.push(b'2'); v }
        };
        if names.contains(&nm) { continue; }
        names.push(nm.clone());
        for _ in 0..rng.range(0, 3) {
            let flip = match rng.below(6) { 0 => 1, 1 => rng.range(2, 32), 2 => 40, _ => 0 };
            let upper = if flip == 0 && rng.chance(1, 5) { rng.range(1, 32) } else { 0 };
            lines.push(json!({"kind": "sum", "alg": rng.range(1, 6), "name": bytes_json(&nm),
                              "of": rng.pick_str(&["content", "content", "content", "other", "plain"]), "flip": flip, "upper": upper}));
        }
        if rng.chance(2, 3) {
            let n = match rng.below(4) { 0 => content.len() + 1, 1 => content.len().saturating_sub(1), _ => content.len() };
            lines.push(json!({"kind": "size", "name": bytes_json(&nm), "n": codes(&format!("{}", n))}));
        }
    }
    json!({"path": path.iter().map(|c| bytes_json(c)).collect::<Vec<_>>(), "content": bytes_json(&content), "lines": lines, "rewrite": rewrite})
}
