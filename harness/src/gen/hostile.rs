//! C17: hostile inputs for every entry point - mutations of valid documents (truncation,
//! duplication, splicing, bit flips), huge numbers, NUL, non-UTF-8, very long lines, lone
//! operators, unbalanced braces.
use super::*;
use crate::util::{bytes_json, codes, tf, Rng};
use serde_json::{json, Value};

macro_rules! mt { ($rng:expr, $base:expr, $other:expr) => {{ let base = $base; mutate_text($rng, &base, $other) }}; }
macro_rules! mb { ($rng:expr, $base:expr, $other:expr) => {{ let base = $base; mutate_bytes($rng, base, $other) }}; }
fn mutate_bytes(rng: &mut Rng, mut b: Vec<u8>, other: &[u8]) -> Vec<u8> {
    for _ in 0..rng.range(0, 4) {
        let n = b.len();
        match rng.below(12) {
            0 if n > 0 => b.truncate(rng.below(n)),
            1 if n > 0 => { let (i, j) = (rng.below(n), rng.below(n)); let s = b[i.min(j)..i.max(j)].to_vec(); let at = rng.below(n); b.splice(at..at, s); }
            2 => { let at = rng.below(n + 1); let k = rng.below(other.len() + 1); b.splice(at..at, other[..k].to_vec()); }
            3 if n > 0 => { let i = rng.below(n); b[i] ^= 1 << rng.below(8); }
            4 => { let at = rng.below(n + 1); let d: Vec<u8> = (0..*rng.pick(&[19usize, 20, 40, 100])).map(|_| b'0' + rng.below(10) as u8).collect(); b.splice(at..at, d); }
            5 => { let at = rng.below(n + 1); b.insert(at, 0); }
            6 => { let at = rng.below(n + 1); b.splice(at..at, rng.pick(&[vec![0xffu8], vec![0xc3], vec![0xe2, 0x82], vec![0xf0, 0x9f, 0x92], vec![0x80], vec![0xed, 0xa0, 0x80]]).clone()); }
            7 => { let at = rng.below(n + 1); b.splice(at..at, "é日💖\u{85}\u{a0}".as_bytes().to_vec()); }
            8 => { let at = rng.below(n + 1); let c = *rng.pick(b"a-={}<>[]*?,@ (\n\t/.:+"); let k = if rng.chance(1, 40) { 5000 } else { *rng.pick(&[2usize, 17, 120]) }; b.splice(at..at, vec![c; k]); }
            9 if n > 0 => { let i = rng.below(n); b.remove(i); }
            10 => { let at = rng.below(n + 1); b.splice(at..at, rng.pick_str(&["\n\n", "\r\n", "=", "nb", "--", "$NetBSD", "PKGNAME=", "@cwd ", "{", "}", ">=", "<", "[", "]", ":", "../"]).as_bytes().to_vec()); }
            _ => {}
        }
    }
    b
}
fn mutate_text(rng: &mut Rng, s: &str, other: &str) -> String {
    String::from_utf8_lossy(&mutate_bytes(rng, s.as_bytes().to_vec(), other.as_bytes())).into_owned()
}
/// brace nesting is capped: expansion is exponential by definition (DESIGN.md, C04 guards)
fn cap_braces(s: String) -> String {
    let mut n = 0;
    s.chars().filter(|c| if *c == '{' || *c == ',' { n += 1; n <= 14 } else { true }).collect()
}

/// every string of length <= 6 over { } a, in a fixed order (independent of the seed): the
/// compile-time balance check and the expansion loop must agree on what is well nested
pub const SKELETONS: u64 = 1093;
fn skeleton(mut i: u64) -> String {
    // i-th string in length-then-lexicographic order over the 3 symbols
    let mut len = 0;
    let mut block = 1u64;
    while i >= block { i -= block; len += 1; block *= 3; }
    let mut s = vec![' '; len];
    for k in (0..len).rev() { s[k] = ['{', '}', 'a'][(i % 3) as usize]; i /= 3; }
    s.into_iter().collect()
}

pub fn next(rng: &mut Rng, i: u64) -> (String, Value) {
    if i < SKELETONS {
        let p = skeleton(i);
        let ns: Vec<Value> = ["a", "aa", "", "aaa"].iter().map(|n| codes(n)).collect();
        return ("patmatch".into(), json!({"p": codes(&p), "ns": ns}));
    }
    // nesting deeper than a narrow counter holds, balanced or not, without commas (one expansion):
    // not subject to the cap below
    if rng.chance(1, 120) {
        let (o, c) = *rng.pick(&[(255usize, 255usize), (256, 256), (257, 257), (300, 300), (256, 255), (256, 0), (512, 256)]);
        let p = format!("{}a{}-1.0", "{".repeat(o), "}".repeat(c));
        let ns: Vec<Value> = ["a-1.0", "a", ""].iter().map(|n| codes(n)).collect();
        return ("patmatch".into(), json!({"p": codes(&p), "ns": ns}));
    }
    match rng.below(16) {
        0 if rng.chance(1, 4) => {
            // small brace skeletons in every order, balanced or not, with a little filler: the
            // compile-time balance check and the expansion loop must agree on what is well nested
            let n = rng.range(1, 7);
            let mut p = String::new();
            for _ in 0..n {
                p.push_str(rng.pick_str(&["{", "}", "{", "}", ",", "a", "b", "-1", ">=1", "*"]));
            }
            let ns: Vec<Value> = ["a", "b", "ab", "a-1", "b-2", "", "a,b"].iter().map(|n| codes(n)).collect();
            ("patmatch".into(), json!({"p": codes(&p), "ns": ns}))
        }
        0 => {
            let (p, names) = patterns::any(rng);
            let (p2, _) = patterns::any(rng);
            let p = cap_braces(mutate_text(rng, &p, &p2));
            let ns: Vec<Value> = names.iter().map(|n| codes(&mutate_text(rng, n, &p))).collect();
            ("patmatch".into(), json!({"p": codes(&p), "ns": ns}))
        }
        1 => {
            let (p, names) = patterns::any(rng);
            let p = cap_braces(mutate_text(rng, &p, "<>{}"));
            let a = mutate_text(rng, &names[0], &p);
            let b = mutate_text(rng, names.last().unwrap(), &p);
            ("best".into(), json!({"p": codes(&p), "a": codes(&a), "b": codes(&b)}))
        }
        2 => {
            let a = mt!(rng, versions::version(rng, true), "99999999999999999999");
            let b = mt!(rng, versions::version(rng, true), &a);
            ("vercmp".into(), json!({"a": codes(&a), "b": codes(&b)}))
        }
        3 => ("pkgname".into(), json!({"s": codes(&mt!(rng, names::pkgname(rng), "nb99999999999999999999"))})),
        4 => ("pkgpath".into(), json!({"s": codes(&mt!(rng, names::pkgpath(rng), "../../"))})),
        5 => ("depend".into(), json!({"s": codes(&cap_braces(mt!(rng, names::depend(rng), ":")))})),
        6 => ("sumparse".into(), json!({"text": codes(&mt!(rng, summaries::faulty_text(rng), "SIZE_PKG=99999999999999999999\n"))})),
        // scale: more than 64 KiB pending without a complete record, writes ending inside characters
        7 if rng.chance(1, 40) => {
            let line = "DESCRIPTION=d\u{e9}j\u{e0} \u{65e5}\u{672c} \u{10fffd} x\n";
            let mut s: Vec<u8> = b"PKGNAME=big-1.0\n".to_vec();
            for _ in 0..rng.range(2400, 3000) { s.extend_from_slice(line.as_bytes()); }
            if rng.chance(1, 2) { s.extend_from_slice(b"\n"); }
            let l = s.len();
            let size = *rng.pick(&[997usize, 4099, 8191, 65537]);
            ("stream".into(), json!({"chunks": summaries::cut(&s, &(1..l).filter(|i| i % size == 0).collect::<Vec<_>>())}))
        }
        7 => {
            let bad = if rng.chance(1, 2) { Some(rng.below(6)) } else { None };
            let s = summaries::stream(rng, bad);
            let s2 = summaries::stream(rng, None);
            let m = mutate_bytes(rng, s, &s2);
            let l = m.len().max(2);
            let mut cuts: Vec<usize> = (0..rng.range(0, 6)).map(|_| rng.range(1, l - 1)).collect();
            cuts.sort();
            ("stream".into(), json!({"chunks": summaries::cut(&m, &cuts)}))
        }
        8 => ("plist".into(), json!({"bytes": bytes_json(&mb!(rng, plists::plist(rng), b"@option preserve\n@ignore\n"))})),
        9 => ("plistline".into(), json!({"bytes": bytes_json(&mb!(rng, plists::line(rng), b"@mode "))})),
        10 => ("distparse".into(), json!({"bytes": bytes_json(&mb!(rng, if rng.chance(1, 2) { distinfos::canonical(rng) } else { distinfos::messy(rng) }, b"Size (x) = 18446744073709551616 bytes\nSHA1 ("))})),
        11 => ("algname".into(), json!({"s": codes(&mt!(rng, digests::algname(rng), "SHA"))})),
        12 => {
            let (ls, err, nl) = scanindexes::lines(rng);
            let joined = mutate_text(rng, &ls.join("\n"), "PKGNAME=\nALL_DEPENDS=x");
            let ls2: Vec<Value> = joined.split('\n').map(|l| codes(l)).collect();
            ("scanindex".into(), json!({"lines": ls2, "err_at": if err > 0 && rng.chance(1, 2) { err.min(ls.len()) } else { 0 }, "final_nl": tf(nl), "err_kind": scanindexes::err_kind(rng), "err_mid": tf(rng.chance(1, 2))}))
        }
        13 => {
            let calls: Vec<Value> = (0..rng.range(0, 6)).map(|_| json!([rng.range(1, 14), codes(&mt!(rng, format!("{}", summaries::int(rng)), "abc\n\n"))])).collect();
            ("metahist".into(), json!({"calls": calls}))
        }
        14 => {
            // package database with odd directory names
            let es: Vec<Value> = (0..rng.range(0, 4)).map(|i| {
                let name: String = mt!(rng, rng.pick_str(&["a-1", "nodash", "-", "--", "x-1.0nb2", "日本-1"]).to_string(), "-").chars().filter(|c| *c != '/' && *c != '\0').take(40).collect();
                let name = if name.is_empty() || name == "." || name == ".." { format!("d{}", i) } else { format!("{}{}", name, i) };
                json!({"name": codes(&name), "dir": tf(rng.chance(4, 5)), "files": [3, 4, 6], "empty": if rng.chance(1, 4) { vec![3, 6] } else { vec![] }, "raw": tf(rng.chance(1, 5))})
            }).collect();
            let root = match rng.below(6) { 0 => "file", 1 => "missing", _ => "dir" };
            ("pkgdb".into(), json!({"root": root, "entries": if root == "dir" { es } else { vec![] }}))
        }
        _ => {
            // Summary call histories including empty lists, repeated calls, all getters after each
            let mut steps = vec![];
            for _ in 0..rng.range(0, 30) {
                let v = rng.range(1, 23);
                let (_, kind, _) = summaries::NAMES[v - 1];
                steps.push(match kind {
                    'I' => json!(["set", v, codes(&format!("{}", summaries::int(rng)))]),
                    'A' => if rng.chance(1, 2) { json!(["push", v, codes(&mt!(rng, summaries::text(rng), "\n=\n"))]) }
                           else { json!(["set", v, (0..rng.below(3)).map(|_| codes(&mt!(rng, summaries::text(rng), "\r\n"))).collect::<Vec<_>>()]) },
                    _ => json!(["set", v, codes(&mt!(rng, summaries::text(rng), "\n\n"))]),
                });
            }
            ("sumhist".into(), json!({"steps": steps}))
        }
    }
}
