//! Random pkg_summary entries (canonical text), call histories, faulty texts, and
//! streams with systematic and random partitions into chunks.
use crate::util::*;
use serde_json::{json, Value};

pub const NAMES: [(&str, char, bool); 23] = [
    ("BUILD_DATE", 'S', true), ("CATEGORIES", 'S', true), ("COMMENT", 'S', true), ("CONFLICTS", 'A', false),
    ("DEPENDS", 'A', false), ("DESCRIPTION", 'A', true), ("FILE_CKSUM", 'S', false), ("FILE_NAME", 'S', false),
    ("FILE_SIZE", 'I', false), ("HOMEPAGE", 'S', false), ("LICENSE", 'S', false), ("MACHINE_ARCH", 'S', true),
    ("OPSYS", 'S', true), ("OS_VERSION", 'S', true), ("PKG_OPTIONS", 'S', false), ("PKGNAME", 'S', true),
    ("PKGPATH", 'S', true), ("PKGTOOLS_VERSION", 'S', true), ("PREV_PKGPATH", 'S', false), ("PROVIDES", 'A', false),
    ("REQUIRES", 'A', false), ("SIZE_PKG", 'I', true), ("SUPERSEDES", 'A', false),
];

const WORDS: [&str; 16] = ["", "x", "a=b", "é", "=", " lead", "trail ", "日本語", "💖", "1.0nb2", "two words", "==", "ß=ü",
    "https://example.org/?a=b&c=d", "\t", "A"];

pub fn text(rng: &mut Rng) -> String {
    // scale: a value longer than a line buffer / a 16-bit length
    if rng.chance(1, 3000) {
        let n = threshold(rng, 70000);
        let mut t = "v".repeat(n / 2);
        t.push_str(rng.pick_str(&["", "=", "é", " ", "\u{10fffd}"]));
        t.push_str(&"w".repeat(n - n / 2));
        return t;
    }
    let t: String = if rng.chance(3, 4) {
        rng.pick_str(&WORDS).to_string()
    } else {
        (0..rng.range(0, 12)).map(|_| *rng.pick(&['a', 'Z', '0', ' ', '=', 'é', '-', '.', '/', '日', '\u{85}', '💖', '\t'])).collect()
    };
    // rare values: Unicode blanks, a byte order mark, last-plane characters, ... (never a line break)
    let t2 = sprinkle(rng, &t, 12);
    // literals of the code under test (dict.rs), alone or joined to the text
    let t2 = crate::dict::dictify(rng, &t2, 14);
    if t2.contains(['\n', '\r']) { t } else { t2 }
}
pub fn int(rng: &mut Rng) -> i64 {
    match rng.below(6) {
        0 => 0,
        1 => -1,
        2 => i64::MAX,
        3 => i64::MIN,
        4 => rng.next() as i64,
        _ => rng.below(100000) as i64,
    }
}

/// a random entry as (variable index 1..23 -> lines of values); required ones always present
pub fn entry_values(rng: &mut Rng) -> Vec<Vec<String>> {
    NAMES
        .iter()
        .map(|(_, kind, req)| {
            if !*req && rng.chance(1, 2) {
                return vec![];
            }
            match kind {
                'I' => vec![format!("{}", int(rng))],
                // scale: more lines than a small table holds
                'A' => (0..if rng.chance(1, 2000) { threshold(rng, 1100) } else { rng.range(1, 3) }).map(|_| text(rng)).collect(),
                _ => vec![text(rng)],
            }
        })
        .collect()
}
pub fn canonical_text(vals: &[Vec<String>]) -> String {
    let mut s = String::new();
    for (i, v) in vals.iter().enumerate() {
        for x in v {
            s.push_str(NAMES[i].0);
            s.push('=');
            s.push_str(x);
            s.push('\n');
        }
    }
    s
}

/// two different random call orders building the same final values
pub fn history(rng: &mut Rng, vals: &[Vec<String>]) -> Vec<Value> {
    let mut steps: Vec<Value> = vec![];
    let mut order: Vec<usize> = (0..23).filter(|i| !vals[*i].is_empty()).collect();
    // shuffle
    for i in (1..order.len()).rev() {
        let j = rng.below(i + 1);
        order.swap(i, j);
    }
    for &i in &order {
        let v = i as u64 + 1;
        let (_, kind, _) = NAMES[i];
        // noise: an earlier value that gets overwritten
        if rng.chance(1, 4) {
            match kind {
                'I' => steps.push(json!(["set", v, codes(&format!("{}", int(rng)))])),
                'A' => steps.push(json!(["set", v, [codes(&text(rng))]])),
                _ => steps.push(json!(["set", v, codes(&text(rng))])),
            }
        }
        match kind {
            'I' => steps.push(json!(["set", v, codes(&vals[i][0])])),
            'A' => {
                if rng.chance(1, 2) {
                    steps.push(json!(["set", v, vals[i].iter().map(|x| codes(x)).collect::<Vec<_>>()]));
                } else {
                    // set the first k, push the rest
                    let k = rng.range(1, vals[i].len());
                    steps.push(json!(["set", v, vals[i][..k].iter().map(|x| codes(x)).collect::<Vec<_>>()]));
                    for x in &vals[i][k..] {
                        steps.push(json!(["push", v, codes(x)]));
                    }
                }
            }
            _ => steps.push(json!(["set", v, codes(&vals[i][0])])),
        }
    }
    steps
}

/// entry text with 0..2 injected faults, random order / repetitions (C08)
pub fn faulty_text(rng: &mut Rng) -> String {
    let vals = entry_values(rng);
    let mut lines: Vec<String> = canonical_text(&vals).lines().map(|l| l.to_string()).collect();
    if rng.chance(1, 2) {
        for i in (1..lines.len()).rev() {
            let j = rng.below(i + 1);
            lines.swap(i, j);
        }
    }
    for _ in 0..rng.below(3) {
        if lines.is_empty() {
            break;
        }
        let i = rng.below(lines.len());
        match rng.below(13) {
            0 => { lines.remove(i); }
            1 => { let l = lines[i].clone(); lines.insert(rng.below(lines.len() + 1), l); }
            2 => { lines[i] = lines[i].replacen('=', "", 1); }
            3 => { lines[i] = lines[i].to_lowercase(); }
            4 => { lines[i] = format!("X{}", lines[i]); }
            5 => { lines.insert(i, rng.pick_str(&["", "GARBAGE", " ", "=x", "FILE_SIZE=abc", "SIZE_PKG=", "SIZE_PKG=1.5", "FILE_SIZE=+7", "SIZE_PKG=-0", "FILE_SIZE=99999999999999999999"]).to_string()); }
            // numbers at and beyond the limits of the integer types
            9 => { lines.insert(i, format!("{}={}", rng.pick_str(&["FILE_SIZE", "SIZE_PKG"]), limit_number(rng))); }
            // a name (known, misspelt or unknown) longer than a fixed-size scan window; rare characters before a name
            10 => { let k = threshold(rng, 5000); lines.insert(i, format!("{}{}={}", rng.pick_str(&["X", "COMMENT", "", "PKGNAME_"]), "N".repeat(k), text(rng))); }
            11 => { lines[i] = format!("{}{}", rare_char(rng), lines[i]); }
            12 => { let c = rare_char(rng); if let Some((a, b)) = lines[i].clone().split_once('=') { lines[i] = format!("{}{}={}", a, c, b); } }
            6 => { let name = NAMES[rng.below(23)].0; lines.push(format!("{}={}", name, text(rng))); }
            7 => { let name = NAMES[rng.below(23)].0; lines.retain(|l| !l.starts_with(&format!("{}=", name))); }
            _ => { lines[i] = format!("{} ", lines[i].replacen('=', " =", 1)); }
        }
    }
    let mut t = lines.join("\n");
    if rng.chance(1, 40) { t.insert(0, *rng.pick(&['\u{feff}', '\u{200b}', '\u{a0}', ' '])); }
    if rng.chance(3, 4) { t.push('\n'); }
    if rng.chance(1, 10) { t = t.replace('\n', "\r\n"); }
    t
}

/// a stream of 1..3 entries, each followed by a blank line; `bad`: Some(kind) injects one
/// malformed entry at a random position
pub fn stream(rng: &mut Rng, bad: Option<usize>) -> Vec<u8> {
    stream_n(rng, bad, 0)
}
/// `many` > 0: that many entries (scale: more bytes than a buffer holds)
pub fn stream_n(rng: &mut Rng, bad: Option<usize>, many: usize) -> Vec<u8> {
    let n = if many > 0 { many } else { rng.range(1, 3) };
    let badpos = rng.below(n);
    let mut out: Vec<u8> = vec![];
    for i in 0..n {
        let mut vals = entry_values(rng);
        if many > 0 {
            // the scale here is the number of records; single values stay short
            for v in vals.iter_mut() { v.truncate(3); for x in v.iter_mut() { if x.len() > 200 { *x = "x".into(); } } }
        }
        let mut t = canonical_text(&vals).into_bytes();
        if let (Some(kind), true) = (bad, i == badpos) {
            match kind {
                0 => t.extend_from_slice(b"NOEQUALS\n"),
                1 => t.extend_from_slice(b"BOGUS_VAR=1\n"),
                2 => t.extend_from_slice(b"FILE_SIZE=abc\n"),
                3 => { let s = String::from_utf8(t).unwrap(); t = s.lines().filter(|l| !l.starts_with("OPSYS=")).map(|l| format!("{}\n", l)).collect::<String>().into_bytes(); }
                4 => { let k = t.len() / 2; t.insert(k, 0xFF); }
                _ => { t.extend_from_slice(b"COMMENT=\xC3\n"); }
            }
        }
        out.extend_from_slice(&t);
        out.push(b'\n');
    }
    out
}

pub fn cut(bytes: &[u8], cuts: &[usize]) -> Value {
    let mut v = vec![];
    let mut last = 0;
    for &c in cuts {
        if c > last && c < bytes.len() {
            v.push(bytes_json(&bytes[last..c]));
            last = c;
        }
    }
    v.push(bytes_json(&bytes[last..]));
    Value::Array(v)
}

/// systematic + random partitions of seeded streams.  Yields up to `want` histories.
pub struct StreamPlan {
    queue: Vec<Value>,
}
impl StreamPlan {
    pub fn new(rng: &mut Rng, want: usize, pairs: bool) -> StreamPlan {
        let mut q: Vec<Value> = vec![];
        let mut round = 0;
        while q.len() < want {
            let bad = if round % 3 == 2 { Some((round / 3) % 6) } else { None };
            // scale: every 5th stream is large (more than 8 KiB, or more than 64 KiB of records);
            // a few partitions only: whole, buffer-sized pieces, small pieces, a cut near the end
            if round % 5 == 1 {
                let many = if (round / 5) % 2 == 0 { 200usize } else { 30 };
                let s = stream_n(rng, if round % 2 == 0 { Some(round % 6) } else { None }, many);
                let l = s.len();
                q.push(json!({"chunks": cut(&s, &[])}));
                for size in if many == 30 { vec![300usize, 8192] } else { vec![8193usize, 65536] } {
                    q.push(json!({"chunks": cut(&s, &(1..l).filter(|i| i % size == 0).collect::<Vec<_>>())}));
                }
                q.push(json!({"chunks": cut(&s, &[rng.range(1, l - 1), l - 2])}));
                round += 1;
                continue;
            }
            // scale: one record larger than 1 MiB (a cap on what may be pending without a separator
            // would show here and nowhere below), written in pieces of 300 000 bytes; once per plan
            if round == 0 && q.is_empty() && want >= 1000 {
                let mut vals = entry_values(rng);
                for v in vals.iter_mut() { v.truncate(2); for x in v.iter_mut() { if x.len() > 200 { *x = "x".into(); } } }
                vals[5] = (0..30000).map(|k| format!("line {} of a long description \u{e9}\u{65e5}", k)).collect();
                let mut s = canonical_text(&vals).into_bytes();
                s.push(b'\n');
                let l = s.len();
                q.push(json!({"chunks": cut(&s, &(1..l).filter(|i| i % 300_000 == 0).collect::<Vec<_>>())}));
            }
            // scale: one record larger than 64 KiB, full of multi-byte characters, so that many
            // writes end inside a character while nothing is complete yet
            if round % 5 == 3 {
                let mut vals = entry_values(rng);
                for v in vals.iter_mut() { v.truncate(2); for x in v.iter_mut() { if x.len() > 200 { *x = "x".into(); } } }
                vals[5] = (0..2600).map(|k| format!("d\u{e9}j\u{e0} \u{65e5}\u{672c} {} \u{10fffd}", k)).collect();
                let mut s = canonical_text(&vals).into_bytes();
                s.push(b'\n');
                let l = s.len();
                for size in [997usize, 4099] {
                    q.push(json!({"chunks": cut(&s, &(1..l).filter(|i| i % size == 0).collect::<Vec<_>>())}));
                }
                round += 1;
                continue;
            }
            let s = stream(rng, bad);
            let l = s.len();
            q.push(json!({"chunks": cut(&s, &[])}));                            // one call
            q.push(json!({"chunks": cut(&s, &(1..l).collect::<Vec<_>>())}));    // byte at a time
            for size in [2usize, 3, 5, 7, 16, 64, 255] {
                q.push(json!({"chunks": cut(&s, &(1..l).filter(|i| i % size == 0).collect::<Vec<_>>())}));
            }
            if round < 2 || pairs {
                for c in 1..l {
                    q.push(json!({"chunks": cut(&s, &[c])}));                   // every single cut
                }
            } else {
                for _ in 0..40 {
                    q.push(json!({"chunks": cut(&s, &[rng.range(1, l - 1)])}));
                }
            }
            let npairs = if pairs { 2000 } else { 60 };
            for _ in 0..npairs {
                let a = rng.range(1, l - 1);
                let b = if rng.chance(1, 2) { (a + rng.range(1, 4)).min(l - 1) } else { rng.range(1, l - 1) };
                q.push(json!({"chunks": cut(&s, &[a.min(b), a.max(b)])}));
            }
            for _ in 0..30 {
                let mut cuts: Vec<usize> = (0..rng.range(2, 12)).map(|_| rng.range(1, l - 1)).collect();
                cuts.sort();
                q.push(json!({"chunks": cut(&s, &cuts)}));
            }
            round += 1;
        }
        q.truncate(want);
        q.reverse();
        StreamPlan { queue: q }
    }
    pub fn next(&mut self) -> Option<Value> {
        self.queue.pop()
    }
}
