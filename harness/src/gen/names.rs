//! Random package names, package paths and dependency strings.
use super::{patterns, versions};
use crate::util::{alias_of, sprinkle, threshold, Rng};

pub fn pkgname(rng: &mut Rng) -> String {
    // scale: the last '-' beyond what a 16-bit offset holds, or a very long version
    if rng.chance(1, 300) {
        let n = threshold(rng, 70000);
        return match rng.below(3) {
            0 => format!("{}-1.0nb3", "b".repeat(n)),
            1 => format!("a-b-{}-2{}nb7", "c".repeat(n), ".0".repeat(rng.below(40))),
            _ => format!("pkg-1{}nb5", ".0".repeat(n.min(4300))),
        };
    }
    let n = rng.range(0, 7);
    let mut s = String::new();
    for _ in 0..n {
        match rng.below(12) {
            0..=2 => s.push('-'),
            3 => s.push_str("nb"),
            4 => { s.push_str("nb"); s.push_str(&(0..rng.range(1, 18)).map(|_| (b'0' + rng.below(10) as u8) as char).collect::<String>()); }
            5 => s.push_str(&patterns::base(rng)),
            6 => s.push_str(rng.pick_str(&["é", "日本", "NB3", "Nb", "n", "b", "anb", ".", "_", "+"])),
            7..=8 => s.push_str(&(0..rng.range(1, 3)).map(|_| (b'0' + rng.below(10) as u8) as char).collect::<String>()),
            _ => s.push_str(&versions::token(rng, false)),
        }
    }
    let s = sprinkle(rng, &s, 15);
    let mut s = crate::dict::dictify(rng, &s, 20);
    if versions::max_digit_run(&s) > 18 { return pkgname(rng); }
    // make "ends in nb<digits>" frequent
    if rng.chance(1, 3) {
        s.push_str("nb");
        s.push_str(&(0..rng.range(1, 18)).map(|_| (b'0' + rng.below(10) as u8) as char).collect::<String>());
    }
    s
}

const SEGS: [&str; 12] = ["..", ".", "", "a", "b", "pkgtools", "py-é", "x.y", "...", ".. ", "日本", "a b"];

pub fn pkgpath(rng: &mut Rng) -> String {
    let mut s = String::new();
    if rng.chance(1, 8) { s.push('/'); }
    let shape = rng.below(8);
    let segs: Vec<String> = match shape {
        // k leading "..", then m ordinary names
        6 | 7 => {
            let mut v: Vec<String> = (0..rng.below(7)).map(|_| "..".to_string()).collect();
            for _ in 0..rng.below(4) { v.push(rng.pick(&SEGS[3..]).to_string()); }
            if rng.chance(1, 5) { let i = rng.below(v.len() + 1); v.insert(i, rng.pick_str(&[".", "", ".."]).to_string()); }
            v
        }
        0 => vec![rng.pick(&SEGS[3..]).to_string(), rng.pick(&SEGS[3..]).to_string()],
        1 => vec!["..".into(), "..".into(), rng.pick(&SEGS[3..]).to_string(), rng.pick(&SEGS[3..]).to_string()],
        _ => (0..rng.range(0, 6)).map(|_| rng.pick(&SEGS).to_string()).collect(),
    };
    for (i, g) in segs.iter().enumerate() {
        if i > 0 { s.push('/'); if rng.chance(1, 6) { s.push('/'); } if rng.chance(1, 8) { s.push_str("./"); } }
        if rng.chance(1, 150) && !g.is_empty() && *g != "." && *g != ".." {
            // scale: a name longer than a path buffer
            s.push_str(&"n".repeat(threshold(rng, 5000)));
        } else if rng.chance(1, 40) {
            // rare values: a character whose code point ends in the byte of '/', '.' or ':'
            let m = *rng.pick(&[b'/', b'.', b':']);
            s.push_str(&format!("{}{}", g, alias_of(rng, m)));
        } else {
            s.push_str(&crate::dict::dictify(rng, g, 30));
        }
    }
    if rng.chance(1, 4) { s.push('/'); }
    if rng.chance(1, 10) { s.push_str("/."); }
    s
}

pub fn depend(rng: &mut Rng) -> String {
    let colons = match rng.below(8) { 0 => 0, 1..=5 => 1, 6 => 2, _ => 3 };
    let mut parts = vec![];
    for i in 0..=colons {
        let part = if i == 0 {
            if rng.chance(4, 5) { patterns::any(rng).0 } else { "{a".to_string() }
        } else if rng.chance(3, 4) { pkgpath(rng) } else { patterns::any(rng).0 };
        let part = part.replace(':', "");
        // a ':' inside the part (inside a bracket expression, a brace group, a version ...): the
        // number of ':' in the whole string decides, wherever they stand
        let part = if rng.chance(1, 12) {
            let cs: Vec<char> = part.chars().collect();
            let at = match cs.iter().position(|c| *c == '[' || *c == '{') { Some(k) if rng.chance(2, 3) => k + 1, _ => rng.below(cs.len() + 1) };
            let mut q: String = cs[..at].iter().collect(); q.push(':'); q.extend(cs[at..].iter()); q
        } else { crate::dict::dictify(rng, &part, 30) };
        parts.push(if rng.chance(1, 30) { let a = alias_of(rng, b':'); let k = part.chars().count(); let at = rng.below(k + 1); let mut q: String = part.chars().take(at).collect(); q.push(a); q.extend(part.chars().skip(at)); q } else { part });
    }
    parts.join(":")
}
