//! Random version strings: token soup over everything the tokeniser distinguishes.
use crate::util::{rare_char, Rng};

const MODS: [&str; 12] = ["alpha", "beta", "rc", "pre", "pl", "nb", "ALPHA", "Beta", "RC", "Pre", "PL", "NB"];
const PUNCT: [&str; 12] = ["+", "~", "-", ":", "/", " ", "@", "!", ",", "=", "*", "^"];
// incl. characters whose Unicode case mapping is ASCII (KELVIN SIGN -> k, İ -> i + dot, ſ -> S, ı -> I, ﬁ -> FI)
const UNI: [&str; 19] = ["é", "ß", "Ω", "日", "💖", "\u{85}", "²", "½", "٣", "３", "Ａ", "ǅ", "Ⅷ", "\u{660}", "\u{212A}", "\u{130}", "\u{17F}", "\u{131}", "\u{FB01}"];

fn digits(rng: &mut Rng, wild: bool) -> String {
    let len = match rng.below(10) {
        0..=5 => 1,
        6..=7 => rng.range(2, 4),
        8 => rng.range(5, 18),
        _ => if wild { rng.range(19, 40) } else { 18 },
    };
    let mut s = String::new();
    for k in 0..len {
        let d = if k == 0 && rng.chance(1, 5) { 0 } else { rng.below(10) };
        s.push((b'0' + d as u8) as char);
    }
    s
}

pub fn token(rng: &mut Rng, wild: bool) -> String {
    match rng.below(20) {
        0..=5 => digits(rng, wild),
        6..=8 => ".".to_string(),
        9 => "_".to_string(),
        10..=12 => rng.pick(&MODS).to_string(),
        13 => format!("nb{}", digits(rng, wild)),
        14..=16 => {
            let c = (b'a' + rng.below(26) as u8) as char;
            if rng.chance(1, 3) { c.to_ascii_uppercase().to_string() } else { c.to_string() }
        }
        17 => rng.pick(&PUNCT).to_string(),
        18 => if rng.chance(1, 4) { rare_char(rng).to_string() } else { rng.pick(&UNI).to_string() },
        _ => if wild { rng.pick(&["<", ">", "{", "}", "[", "?"]).to_string() } else { "0".to_string() },
    }
}

pub fn max_digit_run(s: &str) -> usize {
    let (mut best, mut cur) = (0, 0);
    for c in s.chars() {
        if c.is_ascii_digit() { cur += 1; best = best.max(cur); } else { cur = 0; }
    }
    best
}

/// Scale: versions longer than any fixed-size table, inline key or narrow counter an
/// implementation might use (more than 32 / 64 / 256 components, more than 64 / 128 / 1024 bytes);
/// digit runs stay within 18 digits.
pub fn long(rng: &mut Rng) -> String {
    let k = *rng.pick(&[31usize, 32, 33, 40, 63, 64, 65, 70, 127, 128, 130, 255, 256, 257, 300, 520, 1100, 4096, 4200]);
    match if k > 600 { 0 } else { rng.below(4) } {
        // 1.0.0 ... 0.N : significant only at the far end
        0 => format!("{}{}{}", rng.range(0, 9), ".0".repeat(k), rng.pick(&["", ".1", ".7", "nb1", "rc1", "a", ".0", ".1nb5", "nb4"])),
        // long and significant everywhere
        1 => (0..k).map(|i| if i == 0 { format!("{}", rng.range(0, 3)) } else { format!(".{}", rng.range(0, 3)) }).collect(),
        // a token soup of k tokens
        2 => loop {
            let v: String = (0..k.min(300)).map(|_| token(rng, false)).collect();
            if max_digit_run(&v) <= 18 { break v; }
        },
        // zero components written in different ways
        _ => format!("{}{}{}", rng.range(1, 9), rng.pick(&["._", "..", "_.", ".0_"]).repeat(k / 2), rng.pick(&["", "1", "alpha", "pl"])),
    }
}

/// C01's domain: digit runs of at most 18 digits (unless wild)
pub fn version(rng: &mut Rng, wild: bool) -> String {
    if rng.chance(1, 50) {
        return long(rng);
    }
    loop {
        let n = match rng.below(8) { 0 => 0, 1..=4 => rng.range(1, 4), 5..=6 => rng.range(5, 8), _ => rng.range(9, 12) };
        let v: String = (0..n).map(|_| token(rng, wild)).collect();
        if wild || max_digit_run(&v) <= 18 {
            return v;
        }
    }
}

/// a variation of v that is likely to tie or nearly tie with it
pub fn mutate(rng: &mut Rng, v: &str, wild: bool) -> String {
    loop {
        let m = mutate1(rng, v, wild);
        if wild || max_digit_run(&m) <= 18 {
            return m;
        }
    }
}
fn mutate1(rng: &mut Rng, v: &str, wild: bool) -> String {
    let chars: Vec<char> = v.chars().collect();
    // the same version without one of its characters that the rule ignores (must tie with it)
    let ignored: Vec<usize> = (0..chars.len()).filter(|&i| !chars[i].is_ascii()).collect();
    if !ignored.is_empty() && rng.chance(1, 4) {
        let mut c = chars.clone();
        c.remove(ignored[rng.below(ignored.len())]);
        return c.into_iter().collect();
    }
    // a long version and one of the same length that differs from it only at the far end
    if chars.len() > 64 && rng.chance(1, 2) {
        let mut c = chars.clone();
        let i = c.len() - 1 - rng.below(3.min(c.len()));
        c[i] = if c[i] == '1' { '2' } else { '1' };
        return c.into_iter().collect();
    }
    match rng.below(8) {
        0 => v.to_string(),
        1 => v.to_uppercase(),
        2 => format!("{}{}", v, rng.pick(&[".0", "_", "pl", ".", "alpha", "rc1", "nb1", "nb", "a", ".0.0", "pre"])),
        3 => format!("{}{}", v, token(rng, wild)),
        4 if !chars.is_empty() => {
            let i = rng.below(chars.len());
            let mut c = chars.clone();
            c.remove(i);
            c.into_iter().collect()
        }
        5 if !chars.is_empty() => {
            let i = rng.below(chars.len() + 1);
            let mut s: String = chars[..i].iter().collect();
            s.push_str(&token(rng, wild));
            s.extend(chars[i..].iter());
            s
        }
        6 => v.replace('.', "_").replace("rc", "pre").replace("pl", "."),
        _ => version(rng, wild),
    }
}

pub fn pair(rng: &mut Rng, _i: u64) -> (String, String) {
    let a = version(rng, false);
    let b = if rng.chance(2, 3) { mutate(rng, &a, false) } else { version(rng, false) };
    (a, b)
}

pub fn triple(rng: &mut Rng, _i: u64) -> (String, String, String) {
    let wild = rng.chance(1, 2);
    let a = version(rng, wild);
    let b = if rng.chance(2, 3) { mutate(rng, &a, wild) } else { version(rng, wild) };
    let c = if rng.chance(2, 3) { mutate(rng, &b, wild) } else { version(rng, wild) };
    (a, b, c)
}
