//! Conformance harness binding the TLA+ specification in /verif/spec to the real
//! pkgsrc library.  `ops::run` is the single projection of implementation
//! behaviour to JSON used by both directions: `replay` (cases emitted by TLC are
//! driven into the code) and `record` (seeded drivers log what the code does and
//! TLC validates the log against the specification).
pub mod dict;
pub mod gen;
pub mod guard;
pub mod ops;
pub mod util;
