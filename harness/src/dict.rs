//! A dictionary of the literals the code under test itself compares against.
//!
//! Exhaustive small-scope enumeration and random generation both miss behaviour that hangs on one
//! particular string ("+PRESERVE" as a file name, a value that starts with "../../", the key
//! "PKGPATH", a byte order mark in front of the first line): the alphabets do not contain it and a
//! random draw never spells it.  But code that treats a particular string specially has to name
//! it.  The generators therefore harvest, at start-up, every string, byte-string and character
//! literal of /repo/src/*.rs (the current working tree, outside `#[cfg(test)]` modules and
//! comments) and use them as building blocks: as a whole value, as a prefix or suffix, or spliced
//! into a generated text.  Literals that the tree contains now but did not contain when the
//! specification was written (`baseline_literals.txt`, harvested from the pinned tree) get a large
//! share of the draws, literals of the source file a driver is about the next largest.
//!
//! This only chooses inputs.  What the right outcome for an input is, is decided by the TLA+
//! specification as for every other input, so a harvested literal cannot raise a false alarm.
use crate::util::Rng;
use std::sync::OnceLock;

pub struct Dict {
    /// (source file stem, literal)
    pub all: Vec<(String, String)>,
    /// literals of the current tree that the baseline does not list
    pub novel: Vec<String>,
}

static DICT: OnceLock<Dict> = OnceLock::new();
static FOCUS: OnceLock<Vec<&'static str>> = OnceLock::new();

/// domain strings worth trying everywhere even though no source file spells them today
const EXTRA: [&str; 22] = ["\u{feff}", "\r\n", "\r", "\n", "../../", "../", "./", "..", "/", "//", ":", "::", "-", "--", "=", "==",
    "\0", " ", "\t", "+", "$", "\u{85}"];

fn unescape(body: &str) -> Option<String> {
    let mut out = String::new();
    let mut it = body.chars().peekable();
    while let Some(c) = it.next() {
        if c != '\\' { out.push(c); continue; }
        match it.next()? {
            'n' => out.push('\n'), 'r' => out.push('\r'), 't' => out.push('\t'), '0' => out.push('\0'),
            '\\' => out.push('\\'), '"' => out.push('"'), '\'' => out.push('\''),
            'x' => { let h: String = it.by_ref().take(2).collect(); out.push(char::from_u32(u32::from_str_radix(&h, 16).ok()?)?); }
            'u' => {
                if it.next()? != '{' { return None; }
                let mut h = String::new();
                for d in it.by_ref() { if d == '}' { break; } h.push(d); }
                out.push(char::from_u32(u32::from_str_radix(&h, 16).ok()?)?);
            }
            '\n' => { while it.peek().map(|c| c.is_whitespace()).unwrap_or(false) { it.next(); } }
            _ => return None,
        }
    }
    Some(out)
}

/// string, byte-string and character literals of one Rust source text (comments and everything
/// from the first `#[cfg(test)]` on are skipped)
pub fn literals(src: &str) -> Vec<String> {
    let src = match src.find("#[cfg(test)]\nmod ") { Some(i) => &src[..i], None => src };
    let cs: Vec<char> = src.chars().collect();
    let mut out = vec![];
    let mut i = 0;
    while i < cs.len() {
        let c = cs[i];
        if c == '/' && i + 1 < cs.len() && cs[i + 1] == '/' {
            while i < cs.len() && cs[i] != '\n' { i += 1; }
        } else if c == '/' && i + 1 < cs.len() && cs[i + 1] == '*' {
            while i + 1 < cs.len() && !(cs[i] == '*' && cs[i + 1] == '/') { i += 1; }
            i += 1;
        } else if c == '"' {
            let mut j = i + 1;
            let mut body = String::new();
            while j < cs.len() && cs[j] != '"' {
                if cs[j] == '\\' && j + 1 < cs.len() { body.push(cs[j]); j += 1; }
                body.push(cs[j]);
                j += 1;
            }
            if let Some(s) = unescape(&body) { out.push(s); }
            i = j;
        } else if c == '\'' {
            // a character literal ('x', '\n', '\u{feff}'), not a lifetime ('a)
            if i + 2 < cs.len() && cs[i + 1] != '\\' && cs[i + 2] == '\'' {
                out.push(cs[i + 1].to_string());
                i += 2;
            } else if i + 1 < cs.len() && cs[i + 1] == '\\' {
                let mut j = i + 1;
                let mut body = String::new();
                while j < cs.len() && cs[j] != '\'' && j < i + 14 {
                    if cs[j] == '\\' && j + 1 < cs.len() { body.push(cs[j]); j += 1; }
                    body.push(cs[j]);
                    j += 1;
                }
                if j < cs.len() && cs[j] == '\'' {
                    if let Some(s) = unescape(&body) { out.push(s); }
                    i = j;
                }
            }
        }
        i += 1;
    }
    out.retain(|s| !s.is_empty() && s.chars().count() <= 32 && !s.contains("{}") && !s.contains("{:"));
    out.sort();
    out.dedup();
    out
}

fn load() -> Dict {
    let mut all: Vec<(String, String)> = vec![];
    let mut files: Vec<std::path::PathBuf> = std::fs::read_dir("/repo/src").map(|d| d.filter_map(|e| e.ok()).map(|e| e.path()).collect()).unwrap_or_default();
    files.sort();
    for f in files {
        if f.extension().and_then(|e| e.to_str()) != Some("rs") { continue; }
        let stem = f.file_stem().and_then(|s| s.to_str()).unwrap_or("").to_string();
        if let Ok(src) = std::fs::read_to_string(&f) {
            for l in literals(&src) { all.push((stem.clone(), l)); }
        }
    }
    for e in EXTRA { all.push(("extra".into(), e.to_string())); }
    // novelty is per source file: "+PRESERVE" is an old acquaintance in metadata.rs and news in plist.rs
    let base: std::collections::HashSet<(String, String)> = include_str!("../baseline_literals.txt")
        .lines().filter_map(|l| serde_json::from_str::<(String, String)>(l).ok()).collect();
    let mut novel: Vec<String> = all.iter().filter(|fl| fl.0 != "extra" && !base.contains(*fl)).map(|(_, l)| l.clone()).collect();
    novel.sort();
    novel.dedup();
    Dict { all, novel }
}

pub fn dict() -> &'static Dict { DICT.get_or_init(load) }

/// the source files a driver is about (their literals are drawn more often)
pub fn set_focus(driver: &str) {
    let f: Vec<&'static str> = match driver {
        d if d.starts_with("ver") => vec!["dewey"],
        d if d.starts_with("pat") || d == "best" || d == "reduce" => vec!["pattern", "dewey"],
        d if d.starts_with("sum") || d == "stream" => vec!["summary"],
        d if d.starts_with("dist") || d == "verify" => vec!["distinfo", "digest"],
        d if d.starts_with("digest") || d == "hashvec" => vec!["digest"],
        d if d.starts_with("plist") => vec!["plist"],
        "scanindex" => vec!["scanindex", "pkgpath", "depend"],
        "pkgname" => vec!["pkgname", "dewey"],
        "pkgpath" | "depend" => vec!["pkgpath", "depend"],
        "pkgdb" | "metahist" | "metaname" => vec!["pkgdb", "metadata"],
        _ => vec![],
    };
    let _ = FOCUS.set(f);
}

/// one literal: 2/5 a novel one (if there is any), 2/5 one of the driver's files, else any
pub fn token(rng: &mut Rng) -> String {
    let d = dict();
    let r = rng.below(5);
    if r < 2 && !d.novel.is_empty() {
        return d.novel[rng.below(d.novel.len())].clone();
    }
    if r < 4 {
        let focus = FOCUS.get().cloned().unwrap_or_default();
        let own: Vec<&(String, String)> = d.all.iter().filter(|(f, _)| focus.contains(&f.as_str())).collect();
        if !own.is_empty() {
            return own[rng.below(own.len())].1.clone();
        }
    }
    d.all[rng.below(d.all.len())].1.clone()
}

/// `s`, or - once in `den` - a text built with a literal of the code under test: the literal
/// alone, in front of s, behind s, or spliced into s
pub fn dictify(rng: &mut Rng, s: &str, den: usize) -> String {
    if !rng.chance(1, den) {
        return s.to_string();
    }
    let t = token(rng);
    match rng.below(5) {
        0 | 1 => t,
        2 => format!("{}{}", t, s),
        3 => format!("{}{}", s, t),
        _ => {
            let cs: Vec<char> = s.chars().collect();
            let at = rng.below(cs.len() + 1);
            let mut o: String = cs[..at].iter().collect();
            o.push_str(&t);
            o.extend(cs[at..].iter());
            o
        }
    }
}

/// byte-string variant (packing lists, distinfo names)
pub fn dictify_bytes(rng: &mut Rng, s: &[u8], den: usize) -> Vec<u8> {
    if !rng.chance(1, den) {
        return s.to_vec();
    }
    // (a literal written with \x escapes is a byte string: every character is one byte)
    let tok = token(rng);
    let t: Vec<u8> = if tok.chars().all(|c| (c as u32) < 256) && tok.chars().any(|c| (c as u32) >= 128) && rng.chance(2, 3) {
        tok.chars().map(|c| c as u32 as u8).collect()
    } else { tok.into_bytes() };
    match rng.below(4) {
        0 | 1 => t,
        2 => { let mut o = t; o.extend_from_slice(s); o }
        _ => { let mut o = s.to_vec(); o.extend_from_slice(&t); o }
    }
}
