use serde_json::{json, Value};

/// splitmix64 / xorshift PRNG: deterministic, seedable, no dependencies.
pub struct Rng(u64);
impl Rng {
    pub fn new(seed: u64) -> Rng {
        Rng(seed.wrapping_mul(0x9E3779B97F4A7C15) ^ 0xD1B54A32D192ED03)
    }
    pub fn next(&mut self) -> u64 {
        self.0 = self.0.wrapping_add(0x9E3779B97F4A7C15);
        let mut z = self.0;
        z = (z ^ (z >> 30)).wrapping_mul(0xBF58476D1CE4E5B9);
        z = (z ^ (z >> 27)).wrapping_mul(0x94D049BB133111EB);
        z ^ (z >> 31)
    }
    pub fn below(&mut self, n: usize) -> usize {
        if n == 0 { 0 } else { (self.next() % n as u64) as usize }
    }
    pub fn range(&mut self, lo: usize, hi: usize) -> usize {
        lo + self.below(hi - lo + 1)
    }
    pub fn chance(&mut self, num: usize, den: usize) -> bool {
        self.below(den) < num
    }
    pub fn pick_str(&mut self, xs: &[&'static str]) -> &'static str {
        xs[self.below(xs.len())]
    }
    pub fn pick<'a, T>(&mut self, xs: &'a [T]) -> &'a T {
        &xs[self.below(xs.len())]
    }
}

/// text as a JSON array of Unicode scalar values
pub fn codes(s: &str) -> Value {
    Value::Array(s.chars().map(|c| json!(c as u32)).collect())
}
pub fn bytes_json(b: &[u8]) -> Value {
    Value::Array(b.iter().map(|c| json!(*c)).collect())
}
/// JSON array of scalar values -> String (None if not an array of valid scalars)
pub fn to_string(v: &Value) -> String {
    v.as_array()
        .map(|a| {
            a.iter()
                .filter_map(|x| x.as_u64().and_then(|u| char::from_u32(u as u32)))
                .collect()
        })
        .unwrap_or_default()
}
pub fn to_bytes(v: &Value) -> Vec<u8> {
    v.as_array()
        .map(|a| a.iter().filter_map(|x| x.as_u64().map(|u| u as u8)).collect())
        .unwrap_or_default()
}
pub fn tf(b: bool) -> Value {
    json!(if b { "T" } else { "F" })
}
pub fn opt_codes(o: Option<&str>) -> Value {
    match o {
        Some(s) => json!([codes(s)]),
        None => json!([]),
    }
}
/// printable rendering for samples / replay files
pub fn show(v: &Value) -> String {
    let s = to_string(v);
    s.chars()
        .map(|c| if (' '..='~').contains(&c) { c.to_string() } else { format!("\\u{{{:x}}}", c as u32) })
        .collect()
}
pub fn show_bytes(b: &[u8]) -> String {
    b.iter()
        .map(|&c| if (32..127).contains(&c) { (c as char).to_string() } else { format!("\\x{:02x}", c) })
        .collect()
}

/// FNV-1a, for de-duplicating inputs when counting distinct non-trivial cases
pub fn hash64(s: &str) -> u64 {
    s.bytes().fold(14695981039346656037u64, |h, b| (h ^ b as u64).wrapping_mul(1099511628211))
}

// ---- rare values and scale --------------------------------------------------------------
// Inputs that exhaustive small-scope enumeration and moderate random generation do not reach by
// themselves: characters that matter in exactly one way (a code point whose low byte is an ASCII
// metacharacter, Unicode blanks and digits that are not ASCII blanks / digits, characters of the
// last plane whose UTF-8 lead byte is 0xF4, control characters), and sizes around the thresholds
// of fixed tables, narrow integers and buffers.

/// ASCII characters with a meaning somewhere in the formats of this library
pub const META: [u8; 24] = [b'{', b'}', b',', b'<', b'>', b'=', b'*', b'?', b'[', b']', b'!', b'-', b':', b'/', b'.', b'@', b'(', b')',
    b'$', b'+', b'_', b' ', b'\n', b'#'];

/// a character that is not `m` but whose code point has `m` as its low byte
pub fn alias_of(rng: &mut Rng, m: u8) -> char {
    let hi = *rng.pick(&[0x100u32, 0x300, 0x400, 0x4e00, 0x3000, 0x1f600, 0x10ff00]);
    char::from_u32(hi + m as u32).unwrap_or('\u{17b}')
}

pub const UNI_BLANKS: [char; 16] = ['\u{85}', '\u{a0}', '\u{1680}', '\u{2000}', '\u{2003}', '\u{200a}', '\u{2028}', '\u{2029}', '\u{202f}',
    '\u{205f}', '\u{3000}', '\u{feff}', '\u{200b}', '\u{0b}', '\u{0c}', '\u{1c}'];
pub const UNI_DIGITS: [char; 8] = ['²', '½', '٣', '５', '①', '\u{660}', '৪', 'Ⅷ'];
pub const ODD_CHARS: [char; 10] = ['\u{7f}', '\u{10fffd}', '\u{100000}', '\u{ffff}', '\u{d7ff}', '\u{e000}', '\u{212a}', '\u{130}', '\u{1}', '\u{80}'];

pub fn rare_char(rng: &mut Rng) -> char {
    match rng.below(4) {
        0 => { let m = *rng.pick(&META); alias_of(rng, m) }
        1 => *rng.pick(&UNI_BLANKS),
        2 => *rng.pick(&UNI_DIGITS),
        _ => *rng.pick(&ODD_CHARS),
    }
}

/// s with, now and then (1 in `den`), one rare character put where it is most likely to matter:
/// at the start, at the end, or next to a metacharacter, a blank or a digit
pub fn sprinkle(rng: &mut Rng, s: &str, den: usize) -> String {
    if !rng.chance(1, den) {
        return s.to_string();
    }
    let cs: Vec<char> = s.chars().collect();
    let special: Vec<usize> = (0..cs.len()).filter(|&i| !cs[i].is_ascii_alphabetic()).collect();
    let at = match rng.below(4) {
        0 => 0,
        1 => cs.len(),
        2 if !special.is_empty() => special[rng.below(special.len())] + rng.below(2),
        _ => rng.below(cs.len() + 1),
    };
    let mut out: String = cs[..at].iter().collect();
    out.push(rare_char(rng));
    out.extend(cs[at..].iter());
    out
}

/// a size at or next to a threshold an implementation might have
pub fn threshold(rng: &mut Rng, max: usize) -> usize {
    const T: [usize; 14] = [16, 17, 32, 33, 64, 65, 128, 255, 256, 257, 1023, 1024, 1025, 4096];
    const BIG: [usize; 10] = [4097, 8191, 8192, 8193, 16384, 65535, 65536, 65537, 70000, 131073];
    loop {
        let t = if rng.chance(2, 3) { *rng.pick(&T) } else { *rng.pick(&BIG) };
        if t <= max {
            return t;
        }
    }
}

/// a decimal number at or around the limits of the integer types
pub fn limit_number(rng: &mut Rng) -> String {
    rng.pick_str(&["2147483647", "2147483648", "4294967295", "4294967296", "9223372036854775807", "9223372036854775808",
        "9999999999999999999", "18446744073709551615", "18446744073709551616", "36000000000000000000", "27670116110564327430",
        "99999999999999999999", "340282366920938463463374607431768211456", "-9223372036854775808", "-9223372036854775809",
        "-2147483649", "+5", "00000000000000000000005", "-0", "1e3"]).to_string()
}
