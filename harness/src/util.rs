use serde_json::{json, Value};

/// splitmix64 / xorshift PRNG: deterministic, seedable, no dependencies.
pub struct Rng(u64);
impl Rng {
    pub fn new(seed: u64) -> Rng {
        Rng(seed.wrapping_mul(0x9E3779B97F4A7C15) ^ 0xD1B54A32D192ED03)
    }
    pub fn next(&mut self) -> u64 {
        self.0 = self.0.wrapping_add(0x9E3779B97F4A7C15);
        let mut z = self.0;
        z = (z ^ (z >> 30)).wrapping_mul(0xBF58476D1CE4E5B9);
        z = (z ^ (z >> 27)).wrapping_mul(0x94D049BB133111EB);
        z ^ (z >> 31)
    }
    pub fn below(&mut self, n: usize) -> usize {
        if n == 0 { 0 } else { (self.next() % n as u64) as usize }
    }
    pub fn range(&mut self, lo: usize, hi: usize) -> usize {
        lo + self.below(hi - lo + 1)
    }
    pub fn chance(&mut self, num: usize, den: usize) -> bool {
        self.below(den) < num
    }
    pub fn pick_str(&mut self, xs: &[&'static str]) -> &'static str {
        xs[self.below(xs.len())]
    }
    pub fn pick<'a, T>(&mut self, xs: &'a [T]) -> &'a T {
        &xs[self.below(xs.len())]
    }
}

/// text as a JSON array of Unicode scalar values
pub fn codes(s: &str) -> Value {
    Value::Array(s.chars().map(|c| json!(c as u32)).collect())
}
pub fn bytes_json(b: &[u8]) -> Value {
    Value::Array(b.iter().map(|c| json!(*c)).collect())
}
/// JSON array of scalar values -> String (None if not an array of valid scalars)
pub fn to_string(v: &Value) -> String {
    v.as_array()
        .map(|a| {
            a.iter()
                .filter_map(|x| x.as_u64().and_then(|u| char::from_u32(u as u32)))
                .collect()
        })
        .unwrap_or_default()
}
pub fn to_bytes(v: &Value) -> Vec<u8> {
    v.as_array()
        .map(|a| a.iter().filter_map(|x| x.as_u64().map(|u| u as u8)).collect())
        .unwrap_or_default()
}
pub fn tf(b: bool) -> Value {
    json!(if b { "T" } else { "F" })
}
pub fn opt_codes(o: Option<&str>) -> Value {
    match o {
        Some(s) => json!([codes(s)]),
        None => json!([]),
    }
}
/// printable rendering for samples / replay files
pub fn show(v: &Value) -> String {
    let s = to_string(v);
    s.chars()
        .map(|c| if (' '..='~').contains(&c) { c.to_string() } else { format!("\\u{{{:x}}}", c as u32) })
        .collect()
}
pub fn show_bytes(b: &[u8]) -> String {
    b.iter()
        .map(|&c| if (32..127).contains(&c) { (c as char).to_string() } else { format!("\\x{:02x}", c) })
        .collect()
}

/// FNV-1a, for de-duplicating inputs when counting distinct non-trivial cases
pub fn hash64(s: &str) -> u64 {
    s.bytes().fold(14695981039346656037u64, |h, b| (h ^ b as u64).wrapping_mul(1099511628211))
}
