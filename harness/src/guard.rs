//! Every call into the library runs under catch_unwind; a watchdog in the binaries
//! turns a hang into an observable outcome.  A panic is data: it is reported as the
//! observed outcome {"panic": msg}, which no specification outcome equals.
use serde_json::{json, Value};
use std::panic::{catch_unwind, AssertUnwindSafe};
use std::sync::{Arc, Mutex};

pub fn silence_panics() {
    std::panic::set_hook(Box::new(|_| {}));
}

pub fn guarded<F: FnOnce() -> Value>(f: F) -> Value {
    match catch_unwind(AssertUnwindSafe(f)) {
        Ok(v) => v,
        Err(e) => {
            let msg = if let Some(s) = e.downcast_ref::<&str>() {
                s.to_string()
            } else if let Some(s) = e.downcast_ref::<String>() {
                s.clone()
            } else {
                "panic".to_string()
            };
            json!({ "panic": msg })
        }
    }
}

/// shared "what is running now" slot for the watchdog
pub type Current = Arc<Mutex<String>>;
