//! Package database iteration over a materialised directory tree, metadata read histories.
use super::distinfo::scratch_dir;
use super::{Mismatch, Out};
use crate::util::*;
use pkgsrc::pkgdb::PkgDB;
use pkgsrc::{Metadata, MetadataEntry};
use serde_json::{json, Value};

pub const ENTRIES: [fn() -> MetadataEntry; 14] = [
    || MetadataEntry::BuildInfo, || MetadataEntry::BuildVersion, || MetadataEntry::Comment, || MetadataEntry::Contents,
    || MetadataEntry::DeInstall, || MetadataEntry::Desc, || MetadataEntry::Display, || MetadataEntry::Install,
    || MetadataEntry::InstalledInfo, || MetadataEntry::MtreeDirs, || MetadataEntry::Preserve, || MetadataEntry::RequiredBy,
    || MetadataEntry::SizeAll, || MetadataEntry::SizePkg,
];

/// in {root: "dir"|"file"|"missing" (default dir), entries: [{name, dir: "T"/"F", files: [1..14],
/// empty: [subset of files written zero-length], raw: "T" = a 0xFF byte appended to the name on disk}]}:
/// build the tree, open it, iterate, read files back
pub fn pkgdb(input: &Value) -> Out {
    use std::os::unix::ffi::OsStringExt;
    let root = scratch_dir();
    let db = root.join("pkgdb");
    let kind = input["root"].as_str().unwrap_or("dir").to_string();
    // "big": T = longer than 8 KiB with a two-byte character across the 8192nd byte; K = the same
    // around the 65 536th byte; M = around the 1 048 576th byte (+CONTENTS only: a real package's
    // packing list can be that long, the other '+' files of that package stay short)
    let bigs: Vec<(String, usize)> = input["entries"].as_array().map(|a| a.iter().filter_map(|e| {
        let at = match e["big"].as_str() { Some("T") => 8192, Some("K") => 65536, Some("M") => 1 << 20, _ => 0 };
        if at > 0 { Some((to_string(&e["name"]), at)) } else { None }
    }).collect()).unwrap_or_default();
    let content = |ent: &MetadataEntry, name: &str, empty: bool| {
        let big = bigs.iter().find(|b| b.0 == name).map(|b| b.1).unwrap_or(0);
        let big = if big > 8192 && *ent != MetadataEntry::Contents { 0 } else { big };
        if empty { String::new() }
        else if big > 0 {
            let head = format!("{} of {}\n", ent.to_filename(), name);
            format!("{}{}\u{e9}{}\u{65e5}\n", head, "a".repeat(big - 1 - head.len()), "b".repeat(8190))
        }
        else { format!("{} of {}\n", ent.to_filename(), name) }
    };
    let mut empties: Vec<(String, usize)> = vec![];
    match kind.as_str() {
        "file" => std::fs::write(&db, "SQLite format 3\0").unwrap(),
        "missing" => {}
        _ => {
            std::fs::create_dir_all(&db).unwrap();
            for e in input["entries"].as_array().unwrap() {
                let name = to_string(&e["name"]);
                let mut raw = name.clone().into_bytes();
                if e["raw"] == "T" { raw.push(0xff); }
                let p = db.join(std::ffi::OsString::from_vec(raw));
                if e["dir"] == "T" {
                    std::fs::create_dir_all(&p).unwrap();
                    let empty: Vec<usize> = e["empty"].as_array().map(|a| a.iter().map(|x| x.as_u64().unwrap() as usize).collect()).unwrap_or_default();
                    for f in e["files"].as_array().unwrap() {
                        let i = f.as_u64().unwrap() as usize;
                        let ent = ENTRIES[i - 1]();
                        let is_empty = empty.contains(&i);
                        if is_empty { empties.push((name.clone(), i)); }
                        std::fs::write(p.join(ent.to_filename()), content(&ent, &name, is_empty)).unwrap();
                    }
                } else {
                    std::fs::write(&p, "stray").unwrap();
                }
            }
        }
    }
    let mut listed = vec![];
    let mut errors = 0u64;
    let mut reads_ok = true;
    let mut evals = 1;
    let mut again = false;
    let open = match PkgDB::open(&db) {
        Err(_) => "err",
        Ok(mut it) => {
            while let Some(item) = it.next() {
                evals += 1;
                match item {
                    Ok(pkg) => {
                        listed.push(json!({"pkgname": codes(pkg.pkgname()), "base": codes(pkg.pkgbase()), "version": codes(pkg.pkgversion())}));
                        // reading a metadata entry returns that package's '+FILE' content
                        for (i, mk) in ENTRIES.iter().enumerate() {
                            let ent = mk();
                            let is_empty = empties.iter().any(|(n, f)| n == pkg.pkgname() && *f == i + 1);
                            let want = content(&ent, pkg.pkgname(), is_empty);
                            let present = db.join(pkg.pkgname()).join(ent.to_filename()).exists();
                            match pkg.read_metadata(mk()) {
                                Ok(s) => reads_ok &= present && s == want,
                                Err(_) => reads_ok &= !present,
                            }
                        }
                    }
                    Err(_) => errors += 1,
                }
                if evals > 10_000 { break; }
            }
            // an exhausted iterator stays exhausted (a second `for` over the same handle, count()
            // after a loop): two more calls, which must return normally and yield nothing
            if evals <= 10_000 { again = it.next().is_some() | it.next().is_some(); }
            "ok"
        }
    };
    let _ = std::fs::remove_dir_all(&root);
    listed.sort_by_key(|v| v.to_string());
    let n = listed.len() as u64;
    Out::new(json!({"open": open, "listed": listed, "errors": errors, "reads_ok": tf(reads_ok), "again": tf(again)}), evals, (n > 0) as u64)
}

pub fn pkgdb_compare(case: &Value, obs: &Value) -> Vec<Mismatch> {
    // iteration order is the directory's: compare as multisets
    let mut exp: Vec<Value> = case["out"]["listed"].as_array().cloned().unwrap_or_default();
    exp.sort_by_key(|v| v.to_string());
    let got = obs["listed"].as_array().cloned().unwrap_or_default();
    let mut ms = vec![];
    if exp != got || case["out"]["open"] != obs["open"] || case["out"]["errors"] != obs["errors"] {
        ms.push(Mismatch { tag: String::new(), detail: json!({"expected": case["out"], "observed": obs}) });
    }
    if obs["again"] != "F" {
        ms.push(Mismatch { tag: String::new(), detail: json!({"expected": "an exhausted iteration yields nothing more", "observed": obs["again"]}) });
    }
    if obs["reads_ok"] != "T" {
        ms.push(Mismatch { tag: String::new(), detail: json!({"expected": "read_metadata returns the package's +FILE content", "observed": obs["reads_ok"]}) });
    }
    ms
}

fn ov(o: &Option<Vec<String>>) -> Value {
    match o { Some(v) => json!([v.iter().map(|s| codes(s)).collect::<Vec<_>>()]), None => json!([]) }
}
fn os(o: &Option<String>) -> Value {
    match o { Some(s) => json!([codes(s)]), None => json!([]) }
}
fn oi(o: &Option<i64>) -> Value {
    match o { Some(i) => json!([codes(&format!("{}", i))]), None => json!([]) }
}
fn meta_state(m: &Metadata) -> Value {
    json!([ov(m.build_info()), ov(m.build_version()), codes(m.comment()), codes(m.contents()), os(m.deinstall()), codes(m.desc()),
           os(m.display()), os(m.install()), ov(m.installed_info()), ov(m.mtree_dirs()), ov(m.preserve()), ov(m.required_by()),
           oi(m.size_all()), oi(m.size_pkg())])
}

/// in {calls: [[entry 1..14, value]]}: read_metadata history on one Metadata
pub fn metahist(input: &Value) -> Out {
    let mut m = Metadata::new();
    let mut steps = vec![];
    for c in input["calls"].as_array().unwrap() {
        let i = c[0].as_u64().unwrap() as usize - 1;
        let v = to_string(&c[1]);
        let ret = match m.read_metadata(ENTRIES[i](), &v) { Ok(()) => "ok", Err(_) => "err" };
        steps.push(json!({"ret": ret, "st": meta_state(&m), "valid": tf(m.is_valid().is_ok())}));
    }
    let n = steps.len() as u64;
    Out::new(json!({"steps": steps}), n * 16, 1)
}

/// in {f}: MetadataEntry::from_filename, and to_filename of the result
pub fn metaname(input: &Value) -> Out {
    let f = to_string(&input["f"]);
    let o = match MetadataEntry::from_filename(&f) {
        Some(e) => {
            let idx = ENTRIES.iter().position(|mk| mk() == e).map(|i| i + 1).unwrap_or(0);
            json!({"entry": idx, "back": codes(e.to_filename())})
        }
        None => json!({"entry": 0, "back": []}),
    };
    Out::new(o, 2, 1)
}
