//! PkgName, Summary::pkgbase/pkgversion, PkgPath, Depend.
use super::Out;
use crate::util::*;
use pkgsrc::summary::Summary;
use pkgsrc::{Depend, Pattern, PkgName, PkgPath};
use serde_json::{json, Value};
use std::path::{Component, Path};

fn incr(d: &str) -> String {
    // decimal increment on a digit string
    let mut v: Vec<u8> = d.bytes().collect();
    let mut i = v.len();
    loop {
        if i == 0 {
            v.insert(0, b'1');
            break;
        }
        i -= 1;
        if v[i] == b'9' {
            v[i] = b'0';
        } else {
            v[i] += 1;
            break;
        }
    }
    String::from_utf8(v).unwrap()
}

/// in {s}: the three splitters and, for versions ending in nb<digits>, probe patterns that
/// pin the revision the comparison really uses.
pub fn pkgname(input: &Value) -> Out {
    let s = to_string(&input["s"]);
    let pn = PkgName::new(&s);
    let mut sum = Summary::new();
    sum.set_pkgname(&s);
    let rev = match pn.pkgrevision() {
        Some(r) => json!([codes(&format!("{}", r))]),
        None => json!([]),
    };
    let mut probes = vec![];
    let ver = pn.pkgversion().to_string();
    let base = pn.pkgbase().to_string();
    let digits: String = ver.chars().rev().take_while(|c| c.is_ascii_digit()).collect::<String>().chars().rev().collect();
    let stem = &ver[..ver.len() - digits.len()];
    if !digits.is_empty() && stem.ends_with("nb") && s.contains('-') && !ver.contains(['<', '>', '{', '}'])
        && !base.contains(['<', '>', '{', '}']) && !ver.starts_with('=') {
        let plus = format!("{}{}", stem, incr(&digits));
        for p in [format!("{}>={}", base, ver), format!("{}>{}", base, ver), format!("{}<{}", base, plus), format!("{}>={}", base, plus)] {
            let m = match Pattern::new(&p) {
                Ok(pat) => if pat.matches(&s) { "T" } else { "F" },
                Err(_) => "err",
            };
            probes.push(json!({"p": codes(&p), "m": m}));
        }
        // ... and the one best_match uses: against a candidate whose version is the same with one
        // more ".0" (equal under the dewey rule) and the next higher / the same revision
        if let Ok(pat) = Pattern::new(&format!("{}>=0", base)) {
            let core = &stem[..stem.len() - 2];
            // (... and without a revision: more components, the lower revision)
            for other in [format!("{}-{}.0nb{}", base, core, incr(&digits)), format!("{}-{}.0nb{}", base, core, digits), format!("{}-{}.0", base, core),
                          format!("{}-{}.0.0nb0", base, core)] {
                probes.push(json!({"p": codes(&format!("{}>=0", base)), "b": codes(&other), "w": opt_codes(pat.best_match(&s, &other))}));
            }
        }
    }
    // the matcher splits where PkgName does: a pattern whose base is the text before an EARLIER
    // '-' of the name must not match it
    if !s.contains(['<', '>', '{', '}', '*', '?', '[', ']']) {
        let dashes: Vec<usize> = s.match_indices('-').map(|(i, _)| i).collect();
        for &i in dashes.iter().rev().skip(1).take(3) {
            for tail in [">=0", "<999999", ">="] {
                let p = format!("{}{}", &s[..i], tail);
                let m = match Pattern::new(&p) {
                    Ok(pat) => if pat.matches(&s) { "T" } else { "F" },
                    Err(_) => "err",
                };
                probes.push(json!({"p": codes(&p), "m": m}));
            }
        }
    }
    let nontrivial = (pn.pkgrevision().is_some() && s.contains('-')) as u64;
    Out::new(
        json!({"name": codes(pn.pkgname()), "base": codes(pn.pkgbase()), "ver": codes(pn.pkgversion()), "rev": rev,
               "sb": opt_codes(sum.pkgbase()), "sv": opt_codes(sum.pkgversion()), "probes": probes}),
        6 + probes.len() as u64,
        nontrivial,
    )
}

pub fn comps(p: &Path) -> Value {
    Value::Array(
        p.components()
            .map(|c| {
                let kind = match c {
                    Component::Normal(_) => "Normal",
                    Component::ParentDir => "ParentDir",
                    Component::CurDir => "CurDir",
                    Component::RootDir => "RootDir",
                    Component::Prefix(_) => "Prefix",
                };
                json!([kind, codes(&c.as_os_str().to_string_lossy())])
            })
            .collect(),
    )
}

fn pkgpath_obs(pp: &PkgPath) -> Value {
    // both accessors, the equality of both spellings and the re-parse fixpoint are observed
    // on the real values (PartialEq of PkgPath) - "eq" must be "T"
    let short_txt = pp.as_path().to_string_lossy().to_string();
    let full_txt = pp.as_full_path().to_string_lossy().to_string();
    let eq = match (PkgPath::new(&short_txt), PkgPath::new(&full_txt)) {
        (Ok(a), Ok(b)) => &a == pp && &b == pp && a == b,
        _ => false,
    };
    json!({"ok": "T", "short": comps(pp.as_path()), "full": comps(pp.as_full_path()), "eq": tf(eq)})
}

pub fn pkgpath(input: &Value) -> Out {
    let s = to_string(&input["s"]);
    match PkgPath::new(&s) {
        Ok(pp) => {
            let mut v = pkgpath_obs(&pp);
            let same_fromstr = s.parse::<PkgPath>().map(|q| q == pp).unwrap_or(false);
            if !same_fromstr || v["eq"] != "T" {
                v["inconsistent"] = json!("T");
            }
            v.as_object_mut().unwrap().remove("eq");
            Out::new(v, 4, 1)
        }
        Err(_) => Out::new(json!({"ok": "F"}), 1, 0),
    }
}

pub fn depend(input: &Value) -> Out {
    let s = to_string(&input["s"]);
    match Depend::new(&s) {
        Ok(d) => {
            let mut v = pkgpath_obs(d.pkgpath());
            // the parts must equal parsing each half directly
            let halves: Vec<&str> = s.split(':').collect();
            let same = halves.len() == 2
                && Pattern::new(halves[0]).map(|p| &p == d.pattern()).unwrap_or(false)
                && PkgPath::new(halves[1]).map(|p| &p == d.pkgpath()).unwrap_or(false)
                && s.parse::<Depend>().map(|q| q == d).unwrap_or(false);
            if !same || v["eq"] != "T" {
                v["inconsistent"] = json!("T");
            }
            v.as_object_mut().unwrap().remove("eq");
            Out::new(v, 5, 1)
        }
        Err(_) => Out::new(json!({"ok": "F"}), 1, 0),
    }
}
