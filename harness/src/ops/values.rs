//! Extension (not one of the twenty properties): the library's values as values - equality,
//! hashing, cloning and ordering of PkgName, PkgPath, Pattern and Depend built from two texts.
use super::Out;
use crate::util::*;
use pkgsrc::{Depend, Pattern, PkgName, PkgPath};
use serde_json::{json, Value};
use std::collections::hash_map::DefaultHasher;
use std::hash::{Hash, Hasher};

fn h<T: Hash>(t: &T) -> u64 {
    let mut s = DefaultHasher::new();
    t.hash(&mut s);
    s.finish()
}
fn sign(o: std::cmp::Ordering) -> i64 {
    match o { std::cmp::Ordering::Less => -1, std::cmp::Ordering::Equal => 0, std::cmp::Ordering::Greater => 1 }
}
fn pair<T: Eq + Hash + Clone>(a: &T, b: &T) -> Value {
    json!({"eq": tf(a == b), "qe": tf(b == a), "hash_eq": tf(h(a) == h(b)), "clone_eq": tf(a.clone() == *a && b.clone() == *b),
           "clone_hash": tf(h(&a.clone()) == h(a))})
}

/// in {what: "pkgname"|"pkgpath"|"pattern"|"depend", a, b}; out {oka, okb, eq, qe, hash_eq, clone_eq, clone_hash, cmp?}
pub fn values(input: &Value) -> Out {
    let (a, b) = (to_string(&input["a"]), to_string(&input["b"]));
    let o = match input["what"].as_str().unwrap_or("") {
        "pkgname" => {
            let (x, y) = (PkgName::new(&a), PkgName::new(&b));
            let mut v = pair(&x, &y);
            v["oka"] = json!("T"); v["okb"] = json!("T");
            v["cmp"] = json!(sign(x.cmp(&y))); v["pmc"] = json!(sign(y.cmp(&x)));
            v
        }
        "pkgpath" => match (PkgPath::new(&a), PkgPath::new(&b)) {
            (Ok(x), Ok(y)) => {
                let mut v = pair(&x, &y);
                v["oka"] = json!("T"); v["okb"] = json!("T");
                v["cmp"] = json!(sign(x.cmp(&y))); v["pmc"] = json!(sign(y.cmp(&x)));
                v
            }
            (x, y) => json!({"oka": tf(x.is_ok()), "okb": tf(y.is_ok())}),
        },
        "pattern" => match (Pattern::new(&a), Pattern::new(&b)) {
            (Ok(x), Ok(y)) => { let mut v = pair(&x, &y); v["oka"] = json!("T"); v["okb"] = json!("T"); v }
            (x, y) => json!({"oka": tf(x.is_ok()), "okb": tf(y.is_ok())}),
        },
        _ => match (Depend::new(&a), Depend::new(&b)) {
            (Ok(x), Ok(y)) => { let mut v = pair(&x, &y); v["oka"] = json!("T"); v["okb"] = json!("T"); v }
            (x, y) => json!({"oka": tf(x.is_ok()), "okb": tf(y.is_ok())}),
        },
    };
    Out::new(o, 8, 1)
}
