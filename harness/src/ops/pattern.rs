//! Pattern compile / match / best_match / pairwise reduction.
use super::{Out, State};
use crate::util::*;
use pkgsrc::{Dewey, Pattern};
use serde_json::{json, Value};

fn row(p: &str, names: &[String]) -> (Value, u64, u64) {
    let mut evals = 1;
    let mut nontrivial = 0;
    let mut o = serde_json::Map::new();
    match Pattern::new(p) {
        Ok(pat) => {
            o.insert("ok".into(), json!("T"));
            let m: Vec<Value> = names
                .iter()
                .map(|n| {
                    evals += 1;
                    let r = pat.matches(n);
                    nontrivial += r as u64;
                    tf(r)
                })
                .collect();
            o.insert("m".into(), json!(m));
            // the same question by another route: best_match of a name with itself
            let bm: Vec<Value> = names.iter().map(|n| { evals += 1; tf(pat.best_match(n, n) == Some(n.as_str())) }).collect();
            o.insert("bm".into(), json!(bm));
        }
        Err(_) => {
            o.insert("ok".into(), json!("F"));
            o.insert("m".into(), json!(names.iter().map(|_| "F").collect::<Vec<_>>()));
            o.insert("bm".into(), json!(names.iter().map(|_| "F").collect::<Vec<_>>()));
        }
    }
    // the standalone Dewey matcher, for brace-free patterns only
    if !p.contains(['{', '}']) {
        match Dewey::new(p) {
            Ok(d) => {
                o.insert("dok".into(), json!("T"));
                let m: Vec<Value> = names.iter().map(|n| { evals += 1; tf(d.matches(n)) }).collect();
                o.insert("dm".into(), json!(m));
            }
            Err(_) => {
                o.insert("dok".into(), json!("F"));
                o.insert("dm".into(), json!(names.iter().map(|_| "F").collect::<Vec<_>>()));
            }
        }
    }
    (Value::Object(o), evals, nontrivial)
}

/// S->I: compile verdict and match verdicts of one pattern against the current name list
pub fn patrow(st: &State, input: &Value) -> Out {
    let p = to_string(&input["p"]);
    let (mut v, mut e, mut n) = row(&p, &st.names);
    // row-specific extra names (the pattern's own expansions and near-misses)
    if let Some(xs) = input.get("xs").and_then(|x| x.as_array()) {
        let xs: Vec<String> = xs.iter().map(to_string).collect();
        let (v2, e2, n2) = row(&p, &xs);
        v["xm"] = v2["m"].clone();
        v["xbm"] = v2["bm"].clone();
        e += e2;
        n += n2;
    }
    Out::new(v, e, n)
}

/// I->S: one pattern against its own list of names
pub fn patmatch(input: &Value) -> Out {
    let p = to_string(&input["p"]);
    let names: Vec<String> = input["ns"].as_array().unwrap().iter().map(to_string).collect();
    let (v, e, n) = row(&p, &names);
    Out::new(v, e, n)
}

fn best_of(pat: &Pattern, a: &str, b: &str) -> Value {
    opt_codes(pat.best_match(a, b))
}

/// best_match in both argument orders; out: {ok, ab, ba, ma, mb}
pub fn best(input: &Value) -> Out {
    let p = to_string(&input["p"]);
    let a = to_string(&input["a"]);
    let b = to_string(&input["b"]);
    match Pattern::new(&p) {
        Ok(pat) => {
            let ab = best_of(&pat, &a, &b);
            let ba = best_of(&pat, &b, &a);
            let nt = (ab != json!([])) as u64;
            Out::new(json!({"ok": "T", "ab": ab, "ba": ba, "ma": tf(pat.matches(&a)), "mb": tf(pat.matches(&b))}), 4, nt)
        }
        Err(_) => Out::new(json!({"ok": "F"}), 1, 0),
    }
}

/// Pairwise reduction of a pool of candidates with best_match.  in: {p, pool: [names],
/// steps: [[i, j], ...]} (1-based positions in the current pool; the result replaces
/// element i, element j is removed).  out: the pool after every step, each element
/// [] (None) or [name].
pub fn reduce(input: &Value) -> Out {
    let p = to_string(&input["p"]);
    let mut pool: Vec<Option<String>> =
        input["pool"].as_array().unwrap().iter().map(|v| Some(to_string(v))).collect();
    let pat = match Pattern::new(&p) {
        Ok(p) => p,
        Err(_) => return Out::new(json!({"ok": "F"}), 1, 0),
    };
    let mut hist = vec![];
    let mut evals = 0;
    for s in input["steps"].as_array().unwrap() {
        let i = s[0].as_u64().unwrap() as usize - 1;
        let j = s[1].as_u64().unwrap() as usize - 1;
        let r: Option<String> = match (&pool[i], &pool[j]) {
            // a None on either side: the other survives iff it matches (best_match of a name with itself)
            (Some(a), Some(b)) => pat.best_match(a, b).map(|s| s.to_string()),
            (Some(a), None) | (None, Some(a)) => pat.best_match(a, a).map(|s| s.to_string()),
            (None, None) => None,
        };
        evals += 1;
        pool[i] = r;
        pool.remove(j);
        hist.push(json!(pool.iter().map(|x| opt_codes(x.as_deref())).collect::<Vec<_>>()));
    }
    Out::new(json!({"ok": "T", "hist": hist}), evals, 1)
}

/// History independence of matching: the same patterns x names matrix evaluated
/// pattern-major (each pattern against all names) and name-major (each name against all
/// patterns, the order a package scan uses), through Pattern and through the standalone
/// Dewey matcher.  Compiled patterns are reused across the whole matrix.
pub fn patmatrix(input: &Value) -> Out {
    let ps: Vec<String> = input["ps"].as_array().unwrap().iter().map(to_string).collect();
    let ns: Vec<String> = input["ns"].as_array().unwrap().iter().map(to_string).collect();
    let pats: Vec<Option<Pattern>> = ps.iter().map(|p| Pattern::new(p).ok()).collect();
    let dews: Vec<Option<Dewey>> = ps.iter().map(|p| if p.contains(['{', '}']) { None } else { Dewey::new(p).ok() }).collect();
    let cell = |p: &Option<Pattern>, n: &str| tf(p.as_ref().map(|p| p.matches(n)).unwrap_or(false));
    let dcell = |d: &Option<Dewey>, n: &str| tf(d.as_ref().map(|d| d.matches(n)).unwrap_or(false));
    let mut pm = vec![vec![json!("F"); ns.len()]; ps.len()];
    let mut nm = pm.clone();
    let mut dp = pm.clone();
    let mut dn = pm.clone();
    for (i, p) in pats.iter().enumerate() {
        for (j, n) in ns.iter().enumerate() {
            pm[i][j] = cell(p, n);
        }
    }
    for (j, n) in ns.iter().enumerate() {
        for (i, p) in pats.iter().enumerate() {
            nm[i][j] = cell(p, n);
        }
    }
    for (j, n) in ns.iter().enumerate() {
        for (i, d) in dews.iter().enumerate() {
            dn[i][j] = dcell(d, n);
        }
    }
    for (i, d) in dews.iter().enumerate() {
        for (j, n) in ns.iter().enumerate() {
            dp[i][j] = dcell(d, n);
        }
    }
    let evals = (4 * ps.len() * ns.len()) as u64;
    let nt = pm.iter().flatten().filter(|c| **c == "T").count() as u64;
    Out::new(json!({"ok": pats.iter().map(|p| tf(p.is_some())).collect::<Vec<_>>(), "pm": pm, "nm": nm, "dp": dp, "dn": dn}), evals, (nt > 0) as u64)
}
