//! pbulk-index reader through a scripted BufRead (line by line, I/O error at line k).
use super::names::comps;
use super::Out;
use crate::util::*;
use pkgsrc::ScanIndex;
use serde_json::{json, Value};
use std::io::{self, BufReader, Read};

struct LineReader {
    lines: Vec<Vec<u8>>,
    next: usize,
    err_at: usize,   // 1-based line whose delivery fails, 0 = never
    kind: io::ErrorKind,
    mid: bool,       // deliver half of the line before reporting the error
    half_done: bool,
    fired: bool,
}
impl Read for LineReader {
    fn read(&mut self, buf: &mut [u8]) -> io::Result<usize> {
        // a line of zero bytes (an empty last line without newline) cannot be delivered: Ok(0)
        // would mean end-of-file to the caller, so it is skipped
        while self.next < self.lines.len() && self.lines[self.next].is_empty()
            && !(self.err_at != 0 && !self.fired && self.next + 1 >= self.err_at) {
            self.next += 1;
        }
        if self.err_at != 0 && !self.fired && self.next + 1 >= self.err_at {
            if self.mid && !self.half_done && self.next < self.lines.len() && self.lines[self.next].len() >= 2 {
                // first half of the line, the error comes with the next read
                let l = self.lines[self.next].clone();
                let n = (l.len() / 2).min(buf.len());
                buf[..n].copy_from_slice(&l[..n]);
                self.lines[self.next] = l[n..].to_vec();
                self.half_done = true;
                return Ok(n);
            }
            self.fired = true;   // reported once; a caller that carries on gets the remaining data
            return Err(io::Error::new(self.kind, "scripted I/O error"));
        }
        if self.next >= self.lines.len() {
            return Ok(0);
        }
        let l = &self.lines[self.next];
        if l.len() > buf.len() {
            // deliver a long line in pieces
            let n = buf.len();
            buf.copy_from_slice(&l[..n]);
            self.lines[self.next] = l[n..].to_vec();
            return Ok(n);
        }
        buf[..l.len()].copy_from_slice(l);
        self.next += 1;
        Ok(l.len())
    }
}

fn opt(o: &Option<String>) -> Value {
    opt_codes(o.as_deref())
}

pub fn record_json(r: &ScanIndex) -> Value {
    json!({
        "pkgname": codes(r.pkgname.pkgname()),
        "base": codes(r.pkgname.pkgbase()),
        "version": codes(r.pkgname.pkgversion()),
        "location": match &r.pkg_location { Some(p) => json!([{"short": comps(p.as_path()), "full": comps(p.as_full_path())}]), None => json!([]) },
        "all_depends": r.all_depends.iter().map(|d| json!({"pattern": codes(d.pattern().pattern()),
            "short": comps(d.pkgpath().as_path()), "full": comps(d.pkgpath().as_full_path())})).collect::<Vec<_>>(),
        "scalars": [opt(&r.pkg_skip_reason), opt(&r.pkg_fail_reason), opt(&r.no_bin_on_ftp), opt(&r.restricted), opt(&r.categories),
                    opt(&r.maintainer), opt(&r.use_destdir), opt(&r.bootstrap_pkg), opt(&r.usergroup_phase), opt(&r.pbulk_weight)],
        "scan_depends": r.scan_depends.iter().map(|p| codes(&p.to_string_lossy())).collect::<Vec<_>>(),
        "multi_version": r.multi_version.iter().map(|s| codes(s)).collect::<Vec<_>>(),
    })
}

/// in {lines: [text], err_at, final_nl}: ScanIndex::from_reader
pub fn scanindex(input: &Value) -> Out {
    let mut lines: Vec<Vec<u8>> = input["lines"].as_array().unwrap().iter().map(|l| { let mut b = to_string(l).into_bytes(); b.push(b'\n'); b }).collect();
    if input["final_nl"] != "T" {
        if let Some(l) = lines.last_mut() { l.pop(); }
    }
    let err_at = input["err_at"].as_u64().unwrap_or(0) as usize;
    let n = lines.len() as u64;
    let kind = match input.get("err_kind").and_then(|k| k.as_str()).unwrap_or("Other") {
        "WouldBlock" => io::ErrorKind::WouldBlock,
        "Interrupted" => io::ErrorKind::Interrupted,
        "TimedOut" => io::ErrorKind::TimedOut,
        "BrokenPipe" => io::ErrorKind::BrokenPipe,
        "UnexpectedEof" => io::ErrorKind::UnexpectedEof,
        _ => io::ErrorKind::Other,
    };
    let mid = input.get("err_mid").map(|m| m == "T").unwrap_or(false);
    let rd = BufReader::with_capacity(64, LineReader { lines, next: 0, err_at, kind, mid, half_done: false, fired: false });
    match ScanIndex::from_reader(rd) {
        Ok(v) => {
            let depends_empty = v.iter().all(|r| r.depends.is_empty());
            let mut o = json!({"ok": v.iter().map(record_json).collect::<Vec<_>>()});
            if !depends_empty { o["depends_filled"] = json!("T"); }
            Out::new(o, n + 1, (v.len() > 0) as u64)
        }
        Err(e) => { let _ = format!("{}", e); Out::new(json!({"err": "T"}), n + 1, 0) }
    }
}
