//! pkg_summary entries: call histories on Summary, parsing, streamed parsing.
use super::Out;
use crate::util::*;
use pkgsrc::summary::{MissingVariable, Summary, SummaryError, SummaryStream};
use serde_json::{json, Value};
use std::io::Write;
use std::str::FromStr;

fn strs(v: &Value) -> Vec<String> {
    v.as_array().map(|a| a.iter().map(to_string).collect()).unwrap_or_default()
}
fn os(o: Option<&str>) -> Value {
    opt_codes(o)
}
fn oi(o: Option<i64>) -> Value {
    match o {
        Some(i) => json!([codes(&format!("{}", i))]),
        None => json!([]),
    }
}
fn oa(o: Option<&[String]>) -> Value {
    match o {
        Some(a) => json!([a.iter().map(|s| codes(s)).collect::<Vec<_>>()]),
        None => json!([]),
    }
}

/// the 23 getters, in the table order of Summary.tla
pub fn snapshot(s: &Summary) -> Value {
    json!([
        os(s.build_date()), os(s.categories()), os(s.comment()), oa(s.conflicts()), oa(s.depends()),
        oa(s.description()), os(s.file_cksum()), os(s.file_name()), oi(s.file_size()), os(s.homepage()),
        os(s.license()), os(s.machine_arch()), os(s.opsys()), os(s.os_version()), os(s.pkg_options()),
        os(s.pkgname()), os(s.pkgpath()), os(s.pkgtools_version()), os(s.prev_pkgpath()), oa(s.provides()),
        oa(s.requires()), oi(s.size_pkg()), oa(s.supersedes())
    ])
}

fn apply(s: &mut Summary, kind: &str, v: u64, x: &Value) {
    let t = to_string(x);
    let i = || t.parse::<i64>().unwrap_or(0);
    match (kind, v) {
        ("set", 1) => s.set_build_date(&t),
        ("set", 2) => s.set_categories(&t),
        ("set", 3) => s.set_comment(&t),
        ("set", 4) => s.set_conflicts(&strs(x)),
        ("set", 5) => s.set_depends(&strs(x)),
        ("set", 6) => s.set_description(&strs(x)),
        ("set", 7) => s.set_file_cksum(&t),
        ("set", 8) => s.set_file_name(&t),
        ("set", 9) => s.set_file_size(i()),
        ("set", 10) => s.set_homepage(&t),
        ("set", 11) => s.set_license(&t),
        ("set", 12) => s.set_machine_arch(&t),
        ("set", 13) => s.set_opsys(&t),
        ("set", 14) => s.set_os_version(&t),
        ("set", 15) => s.set_pkg_options(&t),
        ("set", 16) => s.set_pkgname(&t),
        ("set", 17) => s.set_pkgpath(&t),
        ("set", 18) => s.set_pkgtools_version(&t),
        ("set", 19) => s.set_prev_pkgpath(&t),
        ("set", 20) => s.set_provides(&strs(x)),
        ("set", 21) => s.set_requires(&strs(x)),
        ("set", 22) => s.set_size_pkg(i()),
        ("set", 23) => s.set_supersedes(&strs(x)),
        ("push", 4) => s.push_conflicts(&t),
        ("push", 5) => s.push_depends(&t),
        ("push", 6) => s.push_description(&t),
        ("push", 20) => s.push_provides(&t),
        ("push", 21) => s.push_requires(&t),
        ("push", 23) => s.push_supersedes(&t),
        _ => panic!("harness: no such call {} {}", kind, v),
    }
}

/// a formatter sink that accepts n bytes and then reports an error
struct FailAfter(usize);
impl std::fmt::Write for FailAfter {
    fn write_str(&mut self, s: &str) -> std::fmt::Result {
        if s.len() > self.0 {
            self.0 = 0;
            Err(std::fmt::Error)
        } else {
            self.0 -= s.len();
            Ok(())
        }
    }
}

pub fn parse_result(text: &str) -> Value {
    match Summary::from_str(text) {
        Ok(s) => json!({"ok": snapshot(&s), "text": codes(&s.to_string()), "done": tf(s.is_completed())}),
        Err(e) => {
            let (kind, arg) = match &e {
                SummaryError::ParseLine(l) => ("ParseLine", codes(l)),
                SummaryError::ParseVariable(v) => ("ParseVariable", codes(v)),
                SummaryError::ParseInt(_) => ("ParseInt", json!([])),
                SummaryError::Incomplete(m) => ("Incomplete", codes(missing_name(m))),
                SummaryError::Io(_) => ("Io", json!([])),
            };
            // the error must also be printable
            let _ = format!("{}", e);
            json!({"err": [kind, arg]})
        }
    }
}
fn missing_name(m: &MissingVariable) -> &'static str {
    match m {
        MissingVariable::BuildDate => "BUILD_DATE",
        MissingVariable::Categories => "CATEGORIES",
        MissingVariable::Comment => "COMMENT",
        MissingVariable::Description => "DESCRIPTION",
        MissingVariable::MachineArch => "MACHINE_ARCH",
        MissingVariable::Opsys => "OPSYS",
        MissingVariable::OsVersion => "OS_VERSION",
        MissingVariable::Pkgname => "PKGNAME",
        MissingVariable::Pkgpath => "PKGPATH",
        MissingVariable::PkgtoolsVersion => "PKGTOOLS_VERSION",
        MissingVariable::SizePkg => "SIZE_PKG",
    }
}

/// A call history.  in {steps: [[kind, var, arg], ...]}.  The history is replayed on
/// three fresh Summary values (fresh RandomState each): the printed text after every call
/// must be identical on all of them ("same": "T").
pub fn sumhist(input: &Value) -> Out {
    let steps = input["steps"].as_array().unwrap();
    let mut sums = [Summary::new(), Summary::new(), Summary::new()];
    let (mut snaps, mut texts, mut done) = (vec![], vec![], vec![]);
    let (mut pb, mut pv, mut desc) = (vec![], vec![], vec![]);
    let mut same = true;
    for st in steps {
        let (kind, v, x) = (st[0].as_str().unwrap(), st[1].as_u64().unwrap(), &st[2]);
        for s in sums.iter_mut() {
            apply(s, kind, v, x);
        }
        // printing into a sink that fails part-way must leave nothing behind: the next print
        // depends only on the current values
        {
            use std::fmt::Write as _;
            let mut sink = FailAfter(steps.len() % 5 * 9);
            let _ = write!(sink, "{}", sums[0]);
        }
        let t = sums[0].to_string();
        same &= sums[1].to_string() == t && sums[2].to_string() == t && sums[0].clone().to_string() == t;
        snaps.push(snapshot(&sums[0]));
        texts.push(codes(&t));
        done.push(tf(sums[0].is_completed()));
        // accessors derived from the current values, queried after every call
        pb.push(opt_codes(sums[0].pkgbase()));
        pv.push(opt_codes(sums[0].pkgversion()));
        desc.push(match sums[0].description_as_str() { Some(d) => json!([codes(&d)]), None => json!([]) });
    }
    let last = sums[0].to_string();
    let mut o = json!({"ok": "T", "snaps": snaps, "texts": texts, "done": done, "stable": tf(same), "pb": pb, "pv": pv, "desc": desc});
    // accessors derived from PKGNAME and the joined description must not panic either
    let _ = (sums[0].pkgbase(), sums[0].pkgversion(), sums[0].description_as_str());
    o["reparse"] = parse_result(&last);
    let n = steps.len() as u64;
    Out::new(o, n * 27, sums[0].is_completed() as u64)
}

/// in {text}: Summary::from_str
pub fn sumparse(input: &Value) -> Out {
    let t = to_string(&input["text"]);
    let r = parse_result(&t);
    let nt = r.get("ok").is_some() as u64;
    Out::new(r, 1, nt)
}

/// in {chunks: [bytes, ...]}: successive SummaryStream::write calls.  out: per write the
/// return value (["ok", n] / ["err", kind]) and the number of collected entries; the printed
/// collection after the last write; the printed entries collected.
pub fn stream(input: &Value) -> Out {
    let chunks = input["chunks"].as_array().unwrap();
    let mut st = SummaryStream::new();
    let mut writes = vec![];
    let mut evals = 0;
    for c in chunks {
        let b = to_bytes(c);
        let r = st.write(&b);
        evals += 1;
        let failed = r.is_err();
        writes.push(match r {
            Ok(n) => json!({"ret": ["ok", n], "n": st.entries().len()}),
            Err(e) => json!({"ret": ["err", format!("{:?}", e.kind())], "n": st.entries().len()}),
        });
        if failed {
            break; // a history ends at its first failing write
        }
    }
    let _ = st.flush();
    let entries: Vec<Value> = st.entries().iter().map(|s| bytes_json(s.to_string().as_bytes())).collect();
    let shown = st.to_string();
    Out::new(
        json!({"writes": writes, "entries": entries, "display": bytes_json(shown.as_bytes())}),
        evals,
        (st.entries().len() > 0) as u64,
    )
}
