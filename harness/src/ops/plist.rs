//! PLIST parsing and queries.
use super::Out;
use crate::util::*;
use pkgsrc::plist::{Plist, PlistEntry, PlistOption};
use serde_json::{json, Value};
use std::ffi::OsStr;
use std::os::unix::ffi::OsStrExt;

fn ob(s: &OsStr) -> Value {
    bytes_json(s.as_bytes())
}
fn opt_s(o: &Option<String>) -> Value {
    match o { Some(s) => json!([bytes_json(s.as_bytes())]), None => json!([]) }
}
pub fn entry_json(e: &PlistEntry) -> Value {
    match e {
        PlistEntry::File(f) => json!(["File", ob(f)]),
        PlistEntry::Cwd(d) => json!(["Cwd", ob(d)]),
        PlistEntry::Exec(c) => json!(["Exec", ob(c)]),
        PlistEntry::UnExec(c) => json!(["UnExec", ob(c)]),
        PlistEntry::Mode(m) => json!(["Mode", opt_s(m)]),
        PlistEntry::PkgOpt(PlistOption::Preserve) => json!(["PkgOpt", bytes_json(b"preserve")]),
        PlistEntry::Owner(m) => json!(["Owner", opt_s(m)]),
        PlistEntry::Group(m) => json!(["Group", opt_s(m)]),
        PlistEntry::Comment(c) => json!(["Comment", match c { Some(c) => json!([ob(c)]), None => json!([]) }]),
        PlistEntry::Ignore => json!(["Ignore"]),
        PlistEntry::Name(n) => json!(["Name", bytes_json(n.as_bytes())]),
        PlistEntry::PkgDir(d) => json!(["PkgDir", ob(d)]),
        PlistEntry::DirRm(d) => json!(["DirRm", ob(d)]),
        PlistEntry::Display(d) => json!(["Display", ob(d)]),
        PlistEntry::PkgDep(d) => json!(["PkgDep", bytes_json(d.as_bytes())]),
        PlistEntry::BldDep(d) => json!(["BldDep", bytes_json(d.as_bytes())]),
        PlistEntry::PkgCfl(d) => json!(["PkgCfl", bytes_json(d.as_bytes())]),
    }
}

/// in {bytes}: Plist::from_bytes and all twelve queries.  The entry list itself is not
/// public, so it is observed through PlistEntry::from_bytes on the same lines only in
/// "plistline"; here the views carry it (install/uninstall hold whole entries).
pub fn plist(input: &Value) -> Out {
    let b = to_bytes(&input["bytes"]);
    match Plist::from_bytes(&b) {
        Err(e) => { let _ = format!("{}", e); Out::new(json!({"err": "T"}), 1, 0) }
        Ok(p) => {
            let q = json!({
                "files": p.files().iter().map(|f| ob(f)).collect::<Vec<_>>(),
                "prefixed": p.files_prefixed().iter().map(|f| ob(f)).collect::<Vec<_>>(),
                "install": p.install_cmds().iter().map(|e| entry_json(e)).collect::<Vec<_>>(),
                "uninstall": p.uninstall_cmds().iter().map(|e| entry_json(e)).collect::<Vec<_>>(),
                "depends": p.depends().iter().map(|s| bytes_json(s.as_bytes())).collect::<Vec<_>>(),
                "build_depends": p.build_depends().iter().map(|s| bytes_json(s.as_bytes())).collect::<Vec<_>>(),
                "conflicts": p.conflicts().iter().map(|s| bytes_json(s.as_bytes())).collect::<Vec<_>>(),
                "pkgdirs": p.pkgdirs().iter().map(|s| ob(s)).collect::<Vec<_>>(),
                "pkgrmdirs": p.pkgrmdirs().iter().map(|s| ob(s)).collect::<Vec<_>>(),
                "pkgname": match p.pkgname() { Some(n) => json!([bytes_json(n.as_bytes())]), None => json!([]) },
                "display": match p.display() { Some(n) => json!([ob(n)]), None => json!([]) },
                "preserve": tf(p.is_preserve()),
            });
            // the entry sequence itself (verification hook Plist::verif_entries), and - "each entry
            // equals what parsing that line alone gives" - every kept line parsed alone through the
            // public single-line parser must give the same entry ("alone": "T")
            let es: Vec<Value> = p.verif_entries().iter().map(entry_json).collect();
            let mut alone = true;
            let mut i = 0;
            for seg in b.split(|c| *c == b'\n') {
                if seg.iter().all(|c| (*c as char).is_whitespace()) {
                    continue;
                }
                match (PlistEntry::from_bytes(seg), p.verif_entries().get(i)) {
                    (Ok(e), Some(x)) => alone &= &e == x,
                    _ => alone = false,
                }
                i += 1;
            }
            alone &= i == p.verif_entries().len();
            let n = q["files"].as_array().unwrap().len() as u64;
            let mut o = json!({"ok": es, "q": q});
            if !alone {
                o["not_alone"] = json!("T");
            }
            Out::new(o, 13 + i as u64, (n > 0) as u64)
        }
    }
}

/// in {bytes}: PlistEntry::from_bytes on one line
pub fn plistline(input: &Value) -> Out {
    let b = to_bytes(&input["bytes"]);
    match PlistEntry::from_bytes(&b) {
        Ok(e) => Out::new(entry_json(&e), 1, 1),
        Err(e) => { let _ = format!("{}", e); Out::new(json!(["Err"]), 1, 0) }
    }
}
