//! Digest wrappers driven through a scripted reader (exact read sizes, Interrupted,
//! hard errors), and the independent oracle that interprets the specification's
//! uninterpreted hash function H.
use super::{Mismatch, Out};
use crate::util::*;
use digest::Digest as _;
use pkgsrc::digest::Digest;
use serde_json::{json, Value};
use std::io::{self, Read};

pub const ALGS: [Digest; 6] = [Digest::BLAKE2s, Digest::MD5, Digest::RMD160, Digest::SHA1, Digest::SHA256, Digest::SHA512];

fn hex(b: &[u8]) -> String {
    b.iter().map(|x| format!("{:02x}", x)).collect()
}
/// the oracle: RustCrypto called directly, not through pkgsrc::digest (cross-checked
/// against python hashlib by the driver)
pub fn oracle(alg: usize, data: &[u8]) -> String {
    match alg {
        0 => hex(&blake2::Blake2s256::digest(data)),
        1 => hex(&md5::Md5::digest(data)),
        2 => hex(&ripemd::Ripemd160::digest(data)),
        3 => hex(&sha1::Sha1::digest(data)),
        4 => hex(&sha2::Sha256::digest(data)),
        _ => hex(&sha2::Sha512::digest(data)),
    }
}

pub struct Scripted {
    data: Vec<u8>,
    pos: usize,
    sched: Vec<(String, usize)>,
    idx: usize,
    pub calls: usize,
}
impl Scripted {
    pub fn new(data: Vec<u8>, sched: &Value) -> Scripted {
        let sched = sched
            .as_array()
            .map(|a| a.iter().map(|e| (e[0].as_str().unwrap_or("").to_string(), e[1].as_u64().unwrap_or(0) as usize)).collect())
            .unwrap_or_default();
        Scripted { data, pos: 0, sched, idx: 0, calls: 0 }
    }
}
impl Read for Scripted {
    fn read(&mut self, buf: &mut [u8]) -> io::Result<usize> {
        self.calls += 1;
        if self.calls > 1_000_000 {
            return Err(io::Error::new(io::ErrorKind::Other, "harness: runaway reader"));
        }
        if buf.is_empty() {
            return Ok(0);
        }
        while self.idx < self.sched.len() {
            let (kind, k) = self.sched[self.idx].clone();
            match kind.as_str() {
                "read" => {
                    let n = k.min(buf.len()).min(self.data.len() - self.pos);
                    if n == 0 {
                        self.idx += 1;
                        continue;
                    }
                    buf[..n].copy_from_slice(&self.data[self.pos..self.pos + n]);
                    self.pos += n;
                    if n < k {
                        self.sched[self.idx].1 = k - n;
                    } else {
                        self.idx += 1;
                    }
                    return Ok(n);
                }
                "intr" => {
                    self.idx += 1;
                    return Err(io::Error::new(io::ErrorKind::Interrupted, "scripted EINTR"));
                }
                "err" => {
                    // every kind other than Interrupted is a hard error (the count selects the kind)
                    const KINDS: [io::ErrorKind; 7] = [io::ErrorKind::Other, io::ErrorKind::WouldBlock, io::ErrorKind::UnexpectedEof,
                        io::ErrorKind::TimedOut, io::ErrorKind::InvalidData, io::ErrorKind::BrokenPipe, io::ErrorKind::ConnectionReset];
                    let kind = KINDS[self.sched[self.idx].1 % KINDS.len()];
                    self.idx += 1;
                    return Err(io::Error::new(kind, "scripted hard error"));
                }
                _ => {
                    // "eof"
                    if self.pos >= self.data.len() {
                        return Ok(0);
                    }
                    self.idx += 1;
                }
            }
        }
        let n = buf.len().min(self.data.len() - self.pos);
        buf[..n].copy_from_slice(&self.data[self.pos..self.pos + n]);
        self.pos += n;
        Ok(n)
    }
}

/// the harness's own statement of which bytes hash_patch must absorb; TLC checks this claim
/// against Digest!PatchFilter, the harness checks the library against H(claim)
pub fn patch_filter_claim(data: &[u8]) -> Vec<u8> {
    let mut out = vec![];
    let mut lines: Vec<&[u8]> = data.split(|c| *c == b'\n').collect();
    if lines.last().map(|l| l.is_empty()).unwrap_or(false) {
        lines.pop();
    }
    for l in lines {
        if l.windows(7).any(|w| w == b"$NetBSD") {
            continue;
        }
        out.extend_from_slice(l);
        out.push(b'\n');
    }
    out
}

/// in {mode, data, sched}: all six algorithms through the scripted reader
pub fn digest(input: &Value) -> Out {
    let mode = input["mode"].as_str().unwrap_or("plain");
    let data = to_bytes(&input["data"]);
    let mut results = vec![];
    let mut errs = 0;
    for d in ALGS.iter() {
        let mut r = Scripted::new(data.clone(), &input["sched"]);
        let res = if mode == "patch" { d.hash_patch(&mut r) } else { d.hash_file(&mut r) };
        match res {
            Ok(h) => results.push(json!(h)),
            Err(_) => { errs += 1; results.push(json!("err")); }
        }
    }
    let claim = if mode == "patch" { patch_filter_claim(&data) } else { data.clone() };
    let oracle_claim: Vec<Value> = (0..6).map(|a| json!(oracle(a, &claim))).collect();
    let mut o = json!({"results": results, "claim": bytes_json(&claim), "agree": tf(Value::Array(oracle_claim.clone()) == json!(results))});
    if errs == 6 {
        o = json!({"err": "T", "claim": bytes_json(&claim)});
    }
    // the string entry point, when the data is text
    if let Ok(s) = std::str::from_utf8(&data) {
        let strs: Vec<Value> = ALGS.iter().map(|d| json!(d.hash_str(s).unwrap_or_else(|_| "err".into()))).collect();
        let plain: Vec<Value> = (0..6).map(|a| json!(oracle(a, &data))).collect();
        o["str_agree"] = tf(strs == plain);
    } else {
        o["str_agree"] = json!("na");
    }
    Out::new(o, 6, (claim.len() != data.len()) as u64)
}

/// S->I: the specification says which bytes are absorbed (or that the call fails)
pub fn digest_compare(case: &Value, obs: &Value) -> Vec<Mismatch> {
    let out = &case["out"];
    let mut ms = vec![];
    if out.get("err").is_some() {
        if obs.get("err").is_none() {
            ms.push(Mismatch { tag: String::new(), detail: json!({"expected": "every algorithm returns Err", "observed": obs}) });
        }
        return ms;
    }
    let absorbed = to_bytes(&out["absorbed"]);
    let Some(results) = obs["results"].as_array() else {
        return vec![Mismatch { tag: String::new(), detail: json!({"expected": "six digests", "observed": obs}) }];
    };
    for a in 0..6 {
        let want = oracle(a, &absorbed);
        if results[a] != json!(want) {
            ms.push(Mismatch {
                tag: String::new(),
                detail: json!({"alg": format!("{}", ALGS[a]), "expected": want, "observed": results[a],
                               "absorbed_per_spec": show_bytes(&absorbed)}),
            });
        }
    }
    if obs["str_agree"] == "F" {
        ms.push(Mismatch { tag: String::new(), detail: json!({"expected": "hash_str = digest of the text", "observed": "differs"}) });
    }
    ms
}

/// algorithm names: parse (case-insensitively) and print
pub fn algname(input: &Value) -> Out {
    use std::str::FromStr;
    let s = to_string(&input["s"]);
    let o = match Digest::from_str(&s) {
        Ok(d) => json!({"ok": [codes(&format!("{}", d))]}),
        Err(e) => { let _ = format!("{}", e); json!({"ok": []}) }
    };
    Out::new(o, 1, 1)
}

/// known-answer vectors for the driver's hashlib cross-check: data, the library's digests
/// through both entry points, and the oracle's
pub fn hashvec(input: &Value) -> Out {
    let data = to_bytes(&input["data"]);
    let lib_file: Vec<Value> = ALGS.iter().map(|d| json!(d.hash_file(&mut &data[..]).unwrap_or_else(|_| "err".into()))).collect();
    let lib_str: Value = match std::str::from_utf8(&data) {
        Ok(s) => json!(ALGS.iter().map(|d| d.hash_str(s).unwrap_or_else(|_| "err".into())).collect::<Vec<_>>()),
        Err(_) => json!([]),
    };
    let orc: Vec<Value> = (0..6).map(|a| json!(oracle(a, &data))).collect();
    Out::new(json!({"file": lib_file, "str": lib_str, "oracle": orc}), 12, 1)
}
