//! Extension (not one of the twenty properties): which error variant each entry point
//! returns and what its Display says.
use super::Out;
use crate::util::*;
use pkgsrc::plist::{PlistEntry, PlistError};
use pkgsrc::summary::Summary;
use pkgsrc::{Depend, DependError, Dewey, Pattern, PatternError, PkgPath};
use serde_json::{json, Value};
use std::str::FromStr;

/// in {what: "pattern"|"dewey"|"pkgpath"|"depend"|"summary"|"plistline"|"digest", s: text or bytes}
/// out {ok: "T"} or {variant, text, pos?}
pub fn errmsg(input: &Value) -> Out {
    let what = input["what"].as_str().unwrap_or("");
    let o = match what {
        "pattern" => match Pattern::new(&to_string(&input["s"])) {
            Ok(_) => json!({"ok": "T"}),
            Err(e) => {
                let text = codes(&e.to_string());
                match e {
                    PatternError::Alternate => json!({"variant": "Alternate", "text": text}),
                    PatternError::Dewey(d) => json!({"variant": "Dewey", "text": text, "pos": d.pos, "msg": codes(d.msg)}),
                    PatternError::Glob(g) => json!({"variant": "Glob", "text": text, "pos": g.pos}),
                }
            }
        },
        "dewey" => match Dewey::new(&to_string(&input["s"])) {
            Ok(_) => json!({"ok": "T"}),
            Err(d) => json!({"variant": "Dewey", "text": codes(&d.to_string()), "pos": d.pos, "msg": codes(d.msg)}),
        },
        "pkgpath" => match PkgPath::new(&to_string(&input["s"])) {
            Ok(_) => json!({"ok": "T"}),
            Err(e) => json!({"variant": "InvalidPath", "text": codes(&e.to_string())}),
        },
        "depend" => match Depend::new(&to_string(&input["s"])) {
            Ok(_) => json!({"ok": "T"}),
            Err(e) => {
                let text = codes(&e.to_string());
                match e {
                    DependError::Invalid => json!({"variant": "Invalid", "text": text}),
                    DependError::Pattern(_) => json!({"variant": "Pattern", "text": text}),
                    DependError::PkgPath(_) => json!({"variant": "PkgPath", "text": text}),
                }
            }
        },
        "summary" => match Summary::from_str(&to_string(&input["s"])) {
            Ok(_) => json!({"ok": "T"}),
            Err(e) => json!({"variant": format!("{:?}", e).split('(').next().unwrap_or("").to_string(), "text": codes(&e.to_string())}),
        },
        "plistline" => match PlistEntry::from_bytes(&to_bytes(&input["s"])) {
            Ok(_) => json!({"ok": "T"}),
            Err(e) => {
                let text = bytes_json(e.to_string().as_bytes());
                match e {
                    PlistError::UnsupportedCommand(_) => json!({"variant": "UnsupportedCommand", "text": text}),
                    PlistError::IncorrectArguments(_) => json!({"variant": "IncorrectArguments", "text": text}),
                    PlistError::Utf8(_) => json!({"variant": "Utf8", "text": text}),
                }
            }
        },
        "digest" => match pkgsrc::digest::Digest::from_str(&to_string(&input["s"])) {
            Ok(_) => json!({"ok": "T"}),
            Err(e) => json!({"variant": "Unsupported", "text": codes(&e.to_string())}),
        },
        _ => json!({"unknown": what}),
    };
    let nt = o.get("variant").is_some() as u64;
    Out::new(o, 1, nt)
}
