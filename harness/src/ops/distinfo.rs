//! distinfo: parse / write / API assembly / lookup / verification against real files.
use super::digest::{oracle, patch_filter_claim, ALGS};
use super::{Mismatch, Out};
use crate::util::*;
use pkgsrc::distinfo::{Checksum, Distinfo, DistinfoError, Entry, EntryType};
use serde_json::{json, Value};
use std::ffi::OsString;
use std::os::unix::ffi::{OsStrExt, OsStringExt};
use std::path::{Path, PathBuf};

fn alg_index(d: &pkgsrc::digest::Digest) -> usize {
    ALGS.iter().position(|a| a == d).unwrap() + 1
}
fn path_bytes(p: &Path) -> Value {
    bytes_json(p.as_os_str().as_bytes())
}
fn entry_json(e: &Entry) -> Value {
    json!({
        "name": path_bytes(&e.filename),
        "size": match e.size { Some(n) => json!([codes(&format!("{}", n)).as_array().unwrap().iter().skip_while(|c| **c == json!(48)).cloned().collect::<Vec<_>>()]), None => json!([]) },
        "sums": e.checksums.iter().map(|c| json!([alg_index(&c.digest), codes(&c.hash)])).collect::<Vec<_>>(),
    })
}
pub fn di_json(d: &Distinfo) -> Value {
    json!({
        "rcsid": match d.rcsid() { Some(s) => json!([bytes_json(s.as_bytes())]), None => json!([]) },
        "dist": d.distfiles().iter().map(|e| entry_json(e)).collect::<Vec<_>>(),
        "patch": d.patchfiles().iter().map(|e| entry_json(e)).collect::<Vec<_>>(),
    })
}

/// in {bytes}: from_bytes, the parsed value, as_bytes; consistency of the keyed getters and
/// of the filetype with the map an entry is in
pub fn distparse(input: &Value) -> Out {
    let b = to_bytes(&input["bytes"]);
    let d = Distinfo::from_bytes(&b);
    let mut o = json!({"d": di_json(&d), "out": bytes_json(&d.as_bytes())});
    let mut consistent = true;
    for e in d.distfiles() {
        consistent &= e.filetype == EntryType::Distfile && d.get_distfile(&e.filename).map(|x| x == e).unwrap_or(false);
        consistent &= EntryType::from(&e.filename) == EntryType::Distfile;
    }
    for e in d.patchfiles() {
        consistent &= e.filetype == EntryType::Patchfile && d.get_patchfile(&e.filename).map(|x| x == e).unwrap_or(false);
        consistent &= EntryType::from(&e.filename) == EntryType::Patchfile;
    }
    // per-entry as_bytes agrees with the whole file's lines for that entry
    let whole = d.as_bytes();
    for e in d.distfiles() {
        let eb = e.as_bytes();
        consistent &= whole.windows(eb.len().max(1)).any(|w| w == &eb[..]) || eb.is_empty();
    }
    if !consistent {
        o["inconsistent"] = json!("T");
    }
    // lookups by names that may or may not be recorded: [found by get_distfile, by get_patchfile]
    if let Some(ps) = input.get("probes").and_then(|p| p.as_array()) {
        let hits: Vec<Value> = ps.iter().map(|p| {
            let name = PathBuf::from(OsString::from_vec(to_bytes(p)));
            json!([tf(d.get_distfile(&name).is_some()), tf(d.get_patchfile(&name).is_some())])
        }).collect();
        o["hits"] = json!(hits);
    }
    let n = (d.distfiles().len() + d.patchfiles().len()) as u64;
    Out::new(o, 2 + n, (n > 0) as u64)
}

/// in {rcsid: []|[bytes], entries: [{name, path?, size: []|[digits], sums: [[alg, hash]...]}]}: assemble
/// through the API (set_rcsid, Entry::new, insert), write, parse back
pub fn distbuild(input: &Value) -> Out {
    let mut d = Distinfo::new();
    if let Some(r) = input["rcsid"].get(0) {
        d.set_rcsid(&OsString::from_vec(to_bytes(r)));
    }
    let mut inserted = vec![];
    for e in input["entries"].as_array().unwrap() {
        let name = PathBuf::from(OsString::from_vec(to_bytes(&e["name"])));
        let size = e["size"].get(0).map(|s| to_string(s).parse::<u64>().unwrap_or(0));
        let sums: Vec<Checksum> = e["sums"]
            .as_array()
            .unwrap()
            .iter()
            .map(|s| Checksum::new(ALGS[s[0].as_u64().unwrap() as usize - 1], to_string(&s[1])))
            .collect();
        // the file's location ("path", default = the name) has no influence on what is recorded
        let filepath = match e.get("path") { Some(p) => PathBuf::from(OsString::from_vec(to_bytes(p))), None => name.clone() };
        let entry = Entry::new(&name, &filepath, sums, size);
        inserted.push(tf(d.insert(entry)));
    }
    let bytes = d.as_bytes();
    let back = Distinfo::from_bytes(&bytes);
    Out::new(
        json!({"built": di_json(&d), "out": bytes_json(&bytes), "back": di_json(&back), "inserted": inserted}),
        3,
        1,
    )
}

fn err_json(e: &DistinfoError) -> Value {
    let _ = format!("{}", e);
    match e {
        DistinfoError::NotFound => json!(["NotFound"]),
        DistinfoError::Checksum(p, d, exp, act) => json!(["Checksum", path_bytes(p), alg_index(d), codes(exp), codes(act)]),
        DistinfoError::MissingChecksum(_, d) => json!(["MissingChecksum", alg_index(d)]),
        DistinfoError::Size(p, exp, act) => json!(["Size", path_bytes(p), codes(&format!("{}", exp)), codes(&format!("{}", act))]),
        DistinfoError::MissingSize(_) => json!(["MissingSize"]),
        DistinfoError::Io(_) => json!(["Io"]),
        DistinfoError::Digest(_) => json!(["Digest"]),
    }
}

static COUNTER: std::sync::atomic::AtomicU64 = std::sync::atomic::AtomicU64::new(0);
pub fn scratch_dir() -> PathBuf {
    let base = std::env::var("VERIF_SCRATCH").unwrap_or_else(|_| "/verif/work/scratch".to_string());
    let n = COUNTER.fetch_add(1, std::sync::atomic::Ordering::SeqCst);
    let p = PathBuf::from(base).join(format!("p{}-{}", std::process::id(), n));
    let _ = std::fs::remove_dir_all(&p);
    std::fs::create_dir_all(&p).unwrap();
    p
}

/// Verification against a real file.
/// in {path: [components], content: bytes,
///     lines: [{kind: "sum", alg, name, of: "content"|"other", flip: k} | {kind: "size", name, n: digits}]}
/// The recorded hash of a "sum" line is the oracle digest of the bytes the harness claims are
/// absorbed for that entry (patch filter for patch names), with hex digit `flip` (1-based, 0 =
/// none) altered.  out: the file's claim of absorbed bytes per mode, and for the lookup path:
/// find_entry, verify_size, verify_checksum for every algorithm, verify_checksums, calculate_*.
pub fn verify(input: &Value) -> Out {
    let comps: Vec<Vec<u8>> = input["path"].as_array().unwrap().iter().map(to_bytes).collect();
    let content = to_bytes(&input["content"]);
    let dir = scratch_dir();
    let mut full = dir.clone();
    for c in &comps {
        full.push(OsString::from_vec(c.clone()));
    }
    std::fs::create_dir_all(full.parent().unwrap()).unwrap();
    std::fs::write(&full, &content).unwrap();
    let claim_plain = content.clone();
    let claim_patch = patch_filter_claim(&content);

    // build the distinfo text
    let mut text: Vec<u8> = b"$NetBSD$\n\n".to_vec();
    let mut recorded = vec![];
    for l in input["lines"].as_array().unwrap() {
        let name = to_bytes(&l["name"]);
        if l["kind"] == "size" {
            text.extend_from_slice(b"Size (");
            text.extend_from_slice(&name);
            text.extend_from_slice(format!(") = {} bytes\n", to_string(&l["n"])).as_bytes());
        } else {
            let a = l["alg"].as_u64().unwrap() as usize - 1;
            let is_patch = EntryType::from(PathBuf::from(OsString::from_vec(name.clone()))) == EntryType::Patchfile;
            let mut h = match l["of"].as_str().unwrap_or("content") {
                "content" => oracle(a, if is_patch { &claim_patch } else { &claim_plain }),
                "plain" => oracle(a, &claim_plain),
                _ => oracle(a, b"some other file"),
            };
            let flip = l["flip"].as_u64().unwrap_or(0) as usize;
            if flip >= 1 && flip <= h.len() {
                let mut cs: Vec<char> = h.chars().collect();
                cs[flip - 1] = if cs[flip - 1] == '0' { '1' } else { '0' };
                h = cs.into_iter().collect();
            }
            // "upper": the first hex letter at or after this position (1-based) in upper case - a
            // single-byte corruption of the recorded value that a case-insensitive comparison misses
            let upper = l.get("upper").and_then(|u| u.as_u64()).unwrap_or(0) as usize;
            if upper >= 1 {
                let mut cs: Vec<char> = h.chars().collect();
                if let Some(i) = (upper - 1..cs.len()).find(|i| cs[*i].is_ascii_lowercase()) {
                    cs[i] = cs[i].to_ascii_uppercase();
                }
                h = cs.into_iter().collect();
            }
            text.extend_from_slice(format!("{} (", ALGS[a]).as_bytes());
            text.extend_from_slice(&name);
            text.extend_from_slice(format!(") = {}\n", h).as_bytes());
            recorded.push(json!({"alg": a + 1, "name": bytes_json(&name), "hash": codes(&h)}));
        }
    }
    let d = Distinfo::from_bytes(&text);
    // (both outcomes are tuples tagged with a string: TLC's equality is typed, and a record compared
    // with a tuple - which is what a wrong outcome used to be - stops TLC instead of being unequal)
    let found = match d.find_entry(&full) {
        Ok(e) => json!(["found", path_bytes(&e.filename)]),
        Err(e) => json!(["err", err_json(&e)]),
    };
    let size = match d.verify_size(&full) {
        Ok(n) => json!(["Ok", codes(&format!("{}", n))]),
        Err(e) => err_json(&e),
    };
    let mut sums = vec![];
    for a in ALGS.iter() {
        sums.push(match d.verify_checksum(&full, *a) {
            Ok(x) => json!(["Ok", alg_index(&x)]),
            Err(e) => err_json(&e),
        });
    }
    let all: Vec<Value> = d
        .verify_checksums(&full)
        .iter()
        .map(|r| match r { Ok(x) => json!(["Ok", alg_index(x)]), Err(e) => err_json(e) })
        .collect();
    // the entry-level calls must agree with the Distinfo-level ones
    let mut entry_same = true;
    if let Ok(e) = d.find_entry(&full) {
        entry_same &= format!("{:?}", e.verify_size(&full).map_err(|x| err_json(&x))) == format!("{:?}", d.verify_size(&full).map_err(|x| err_json(&x)));
        for a in ALGS.iter() {
            entry_same &= format!("{:?}", e.verify_checksum(&full, *a).map_err(|x| err_json(&x)))
                == format!("{:?}", d.verify_checksum(&full, *a).map_err(|x| err_json(&x)));
        }
        let eall: Vec<Value> = e
            .verify_checksums(&full)
            .iter()
            .map(|r| match r { Ok(x) => json!(["Ok", alg_index(x)]), Err(e) => err_json(e) })
            .collect();
        entry_same &= eall == all;
    }
    // calculate_*: size of the file, digest of the bytes absorbed for this path's type
    let last_is_patch = EntryType::from(&full) == EntryType::Patchfile;
    let calc_size = Distinfo::calculate_size(&full).map(|n| n as usize == content.len()).unwrap_or(false);
    let mut calc_ok = calc_size;
    for (i, a) in ALGS.iter().enumerate() {
        let want = oracle(i, if last_is_patch { &claim_patch } else { &claim_plain });
        calc_ok &= Distinfo::calculate_checksum(&full, *a).map(|h| h == want).unwrap_or(false);
    }
    // actual digests as the oracle computes them from the claims (for the Checksum error's "actual")
    let actual_plain: Vec<Value> = (0..6).map(|a| codes(&oracle(a, &claim_plain))).collect();
    let actual_patch: Vec<Value> = (0..6).map(|a| codes(&oracle(a, &claim_patch))).collect();
    // "rewrite" = k > 0: the file is then overwritten in place - same path, same length, same
    // modification time (what cp -p / rsync -t leave behind), byte k (1-based) changed - and
    // verified again: the verdict is about the file's current content
    let mut again = json!({});
    let k = input.get("rewrite").and_then(|k| k.as_u64()).unwrap_or(0) as usize;
    if k >= 1 && k <= content.len() {
        let mtime = std::fs::metadata(&full).and_then(|m| m.modified()).ok();
        let mut c2 = content.clone();
        c2[k - 1] = c2[k - 1].wrapping_add(1);
        std::fs::write(&full, &c2).unwrap();
        if let Some(t) = mtime {
            if let Ok(f) = std::fs::File::options().write(true).open(&full) { let _ = f.set_modified(t); }
        }
        let claim_patch2 = patch_filter_claim(&c2);
        let sums2: Vec<Value> = ALGS.iter().map(|a| match d.verify_checksum(&full, *a) {
            Ok(x) => json!(["Ok", alg_index(&x)]),
            Err(e) => err_json(&e),
        }).collect();
        again = json!({"claim_patch": bytes_json(&claim_patch2), "sums": sums2,
                       "actual_plain": (0..6).map(|a| codes(&oracle(a, &c2))).collect::<Vec<_>>(),
                       "actual_patch": (0..6).map(|a| codes(&oracle(a, &claim_patch2))).collect::<Vec<_>>()});
    }
    let _ = std::fs::remove_dir_all(&dir);
    Out::new(
        json!({"again": again, "claim_patch": bytes_json(&claim_patch), "recorded": recorded, "parsed": di_json(&d),
               "found": found, "size": size, "sums": sums, "all": all, "entry_same": tf(entry_same),
               "calc_ok": tf(calc_ok), "last_is_patch": tf(last_is_patch), "len": codes(&format!("{}", content.len())),
               "actual_plain": actual_plain, "actual_patch": actual_patch}),
        10,
        1,
    )
}

pub fn verify_compare(_case: &Value, _obs: &Value) -> Vec<Mismatch> {
    vec![]
}
