//! Version comparison as observable through the public API: the dewey module's
//! DeweyVersion / dewey_cmp are private, so a comparison "A op B" is asked as
//! Pattern::new("p" op B).matches("p-" A), the same through Dewey directly, and
//! through best_match on the names p-A, p-B.
use super::{Mismatch, Out, State};
use crate::util::*;
use pkgsrc::{Dewey, Pattern};
use serde_json::{json, Value};

pub const OPS: [(&str, &str); 4] = [("GT", ">"), ("GE", ">="), ("LT", "<"), ("LE", "<=")];

pub fn holds(op: &str, sign: i64) -> bool {
    match op {
        "GT" => sign > 0,
        "GE" => sign >= 0,
        "LT" => sign < 0,
        _ => sign <= 0,
    }
}

/// may this version text be written after an operator in a pattern?
pub fn pat_eligible(v: &str) -> bool {
    !v.contains(['<', '>', '{', '}']) && !v.starts_with('=')
}
/// may this version text be the version part of a package name?
pub fn name_eligible(v: &str) -> bool {
    !v.contains('-')
}

/// "A op B" through Pattern: "T" / "F" / "err" (pattern did not compile)
pub fn ask_pattern(a: &str, sym: &str, b: &str) -> &'static str {
    match Pattern::new(&format!("p{}{}", sym, b)) {
        Ok(p) => if p.matches(&format!("p-{}", a)) { "T" } else { "F" },
        Err(_) => "err",
    }
}
pub fn ask_dewey(a: &str, sym: &str, b: &str) -> &'static str {
    match Dewey::new(&format!("p{}{}", sym, b)) {
        Ok(p) => if p.matches(&format!("p-{}", a)) { "T" } else { "F" },
        Err(_) => "err",
    }
}
/// best_match on p-A, p-B under the glob p-*: "a" / "b" / "none" / "other"
pub fn ask_best(a: &str, b: &str) -> &'static str {
    let (na, nb) = (format!("p-{}", a), format!("p-{}", b));
    let p = match Pattern::new("p-*") {
        Ok(p) => p,
        Err(_) => return "err",
    };
    match p.best_match(&na, &nb) {
        None => "none",
        Some(r) if r == na && r == nb => "ab",
        Some(r) if r == na => "a",
        Some(r) if r == nb => "b",
        Some(_) => "other",
    }
}
pub fn expected_best(a: &str, b: &str, sign: i64) -> &'static str {
    if a == b {
        "ab"
    } else if sign > 0 {
        "a"
    } else if sign < 0 {
        "b"
    } else if format!("p-{}", a) < format!("p-{}", b) {
        "a"
    } else {
        "b"
    }
}

/// all nine questions about the ordered pair (A, B); "na" where not askable
pub fn nine(a: &str, b: &str) -> Vec<&'static str> {
    let mut v = Vec::with_capacity(9);
    let askable = name_eligible(a) && pat_eligible(b);
    for (_, sym) in OPS {
        v.push(if askable { ask_pattern(a, sym, b) } else { "na" });
    }
    for (_, sym) in OPS {
        v.push(if askable { ask_dewey(a, sym, b) } else { "na" });
    }
    v.push(if name_eligible(a) && name_eligible(b) { ask_best(a, b) } else { "na" });
    v
}
pub fn nine_expected(a: &str, b: &str, sign: i64) -> Vec<&'static str> {
    let mut v = Vec::with_capacity(9);
    let askable = name_eligible(a) && pat_eligible(b);
    for _ in 0..2 {
        for (op, _) in OPS {
            v.push(if !askable { "na" } else if holds(op, sign) { "T" } else { "F" });
        }
    }
    v.push(if name_eligible(a) && name_eligible(b) { expected_best(a, b, sign) } else { "na" });
    v
}

/// S->I: one row of the exhaustive pair table.  in: {a: index}; observed: for every
/// version B of the list the nine verdicts about (A, B).
pub fn verrow(st: &State, input: &Value) -> Out {
    let ai = input["a"].as_u64().unwrap() as usize - 1;
    let a = &st.vers[ai];
    let mut rows = Vec::with_capacity(st.vers.len());
    let mut evals = 0;
    let mut strict = 0;
    for b in &st.vers {
        let v = nine(a, b);
        evals += v.iter().filter(|x| **x != "na").count() as u64;
        strict += (v[0] != "na" && v[0] != v[2]) as u64;     // A>B differs from A<B: not a tie
        rows.push(json!(v));
    }
    Out::new(json!({ "v": rows }), evals, strict)
}

pub fn verrow_compare(st: &State, case: &Value, obs: &Value) -> Vec<Mismatch> {
    // expected verdicts are expanded from the specification's sign row
    let mut ms = vec![];
    let sg = case["out"]["sg"].as_array().unwrap();
    let alt = case.get("alt").and_then(|a| a.as_object());
    let a = st.vers[case["in"]["a"].as_u64().unwrap() as usize - 1].clone();
    let Some(rows) = obs["v"].as_array() else {
        return vec![Mismatch { tag: String::new(), detail: json!({"observed": obs}) }];
    };
    for (bi, row) in rows.iter().enumerate() {
        let b = st.vers[bi].clone();
        let exp = nine_expected(&a, &b, sg[bi].as_i64().unwrap());
        for q in 0..9 {
            if row[q] != exp[q] {
                let mut tag = String::new();
                if let Some(alt) = alt {
                    for (t, v) in alt {
                        let e2 = nine_expected(&a, &b, v["sg"][bi].as_i64().unwrap());
                        if row[q] == e2[q] {
                            tag = t.clone();
                        }
                    }
                }
                ms.push(Mismatch {
                    tag,
                    detail: json!({"a": a, "b": b, "question": q, "expected": exp[q], "observed": row[q],
                        "questions": "0-3: Pattern p{>,>=,<,<=}B matches p-A; 4-7: the same through Dewey; 8: best_match(p-A,p-B) under p-*"}),
                });
            }
        }
    }
    ms
}

/// I->S: the nine verdicts about (A, B) and about (B, A)
pub fn vercmp(input: &Value) -> Out {
    let a = to_string(&input["a"]);
    let b = to_string(&input["b"]);
    let ab = nine(&a, &b);
    let ba = nine(&b, &a);
    let evals = ab.iter().chain(ba.iter()).filter(|x| **x != "na").count() as u64;
    let nontrivial = (ab[0] != ab[2]) as u64;
    Out::new(json!({"ab": ab, "ba": ba}), evals, nontrivial)
}

/// I->S for the order laws: verdicts for the three pairs of a triple
pub fn vertriple(input: &Value) -> Out {
    let a = to_string(&input["a"]);
    let b = to_string(&input["b"]);
    let c = to_string(&input["c"]);
    let mut evals = 0;
    let mut o = serde_json::Map::new();
    for (k, x, y) in [("ab", &a, &b), ("ba", &b, &a), ("bc", &b, &c), ("cb", &c, &b), ("ac", &a, &c),
                      ("ca", &c, &a), ("aa", &a, &a)] {
        let v = nine(x, y);
        evals += v.iter().filter(|x| **x != "na").count() as u64;
        o.insert(k.to_string(), json!(v));
    }
    // a two-bound pattern versus its two halves, B in [A, C]
    let two = if name_eligible(&b) && pat_eligible(&a) && pat_eligible(&c) {
        let name = format!("p-{}", b);
        let mut t = vec![];
        for (lo, hi) in [(">", "<"), (">=", "<"), (">", "<="), (">=", "<=")] {
            let both = match Pattern::new(&format!("p{}{}{}{}", lo, a, hi, c)) {
                Ok(p) => if p.matches(&name) { "T" } else { "F" },
                Err(_) => "err",
            };
            t.push(json!([both, ask_pattern(&b, lo, &a), ask_pattern(&b, hi, &c)]));
            evals += 3;
        }
        json!(t)
    } else {
        json!([])
    };
    o.insert("two".to_string(), two);
    Out::new(Value::Object(o), evals, 1)
}
