//! record <driver> <seed> <n> <trace.ndjson> <watchdog-seconds> [args...]
//! Drive the real library with seeded generated inputs / histories and log one ndjson
//! event per call: operation, arguments, observed outcome.  TLC validates the log.
use pkgsrc_conform::guard::*;
use pkgsrc_conform::util::Rng;
use pkgsrc_conform::{gen, ops};
use serde_json::{json, Value};
use std::io::Write;
use std::sync::{mpsc, Arc, Mutex};
use std::time::Duration;

enum Msg {
    Rec { line: String, evals: u64, nontrivial: u64, sample: Option<Value> },
    End,
}

fn main() {
    let args: Vec<String> = std::env::args().collect();
    let driver = args[1].clone();
    if driver == "@literals" {
        // the literals of /repo/src as the dictionary sees them, one JSON string per line
        // (harness/baseline_literals.txt was written with this from the pinned tree)
        for fl in &pkgsrc_conform::dict::dict().all { println!("{}", serde_json::to_string(fl).unwrap()); }
        return;
    }
    if driver == "@novel" {
        for l in &pkgsrc_conform::dict::dict().novel { println!("{}", serde_json::to_string(l).unwrap()); }
        return;
    }
    pkgsrc_conform::dict::set_focus(&driver);
    let seed: u64 = args[2].parse().unwrap();
    let n: u64 = args[3].parse().unwrap();
    let out = args[4].clone();
    let wd: u64 = args[5].parse().unwrap();
    let extra: Vec<String> = args[6..].to_vec();
    silence_panics();
    let current: Current = Arc::new(Mutex::new(String::new()));
    let cur2 = current.clone();
    let (tx, rx) = mpsc::channel::<Msg>();
    std::thread::Builder::new()
        .stack_size(256 << 20)
        .spawn(move || {
            let mut rng = Rng::new(seed ^ gen::driver_salt(&driver));
            let mut st = ops::State::default();
            let mut g = gen::Gen::new(&driver, &extra);
            // distinct inputs: non-trivial cases are counted once per distinct input
            let mut seen: std::collections::HashSet<u64> = std::collections::HashSet::new();
            // The cost of validating a record in TLC grows with its size, and the scale shapes of
            // the generators (inputs of 4 KB ... 2 MB) dominate it.  A run may therefore be given
            // a budget: VERIF_BIG_MAX = largest admissible input, VERIF_BIG_BUDGET = total size of
            // all inputs above 40 000 JSON characters (about 10 000 bytes).  A case that does not fit is not run (deterministic:
            // the generator state has advanced all the same).  Unset = no limit (thorough tier).
            let envn = |k: &str| std::env::var(k).ok().and_then(|v| v.parse::<usize>().ok());
            let big_max = envn("VERIF_BIG_MAX").unwrap_or(usize::MAX);
            let mut big_left = envn("VERIF_BIG_BUDGET").unwrap_or(usize::MAX);
            let from_cases = driver == "@cases";
            for i in 0..n {
                let Some((op, input)) = g.next(&mut rng, i) else { break };
                if !from_cases && (big_max != usize::MAX || big_left != usize::MAX) {
                    let sz = input.to_string().len();
                    if sz > big_max { continue; }
                    if sz > 40000 {
                        if sz > big_left { continue; }
                        big_left -= sz;
                    }
                }
                *cur2.lock().unwrap() = json!({"op": op, "in": input}).to_string();
                let mut res: Option<ops::Out> = None;
                let obs = guarded(|| match ops::run(&mut st, &op, &input) {
                    Some(o) => { let v = o.obs.clone(); res = Some(o); v }
                    None => Value::Null,
                });
                let (evals, mut nontrivial) = res.as_ref().map(|o| (o.evals, o.nontrivial)).unwrap_or((1, 0));
                if nontrivial > 0 && !seen.insert(pkgsrc_conform::util::hash64(&format!("{}{}", op, input))) {
                    nontrivial = 0;
                }
                // "abnormal": the call panicked (a hang is recorded by the watchdog below)
                let abnormal = obs.get("panic").is_some();
                let rec = json!({"op": op, "in": input, "out": obs, "abnormal": if abnormal { "T" } else { "F" }});
                let sample = if i % 997 == 3 { Some(rec.clone()) } else { None };
                tx.send(Msg::Rec { line: rec.to_string(), evals, nontrivial, sample }).unwrap();
            }
            tx.send(Msg::End).unwrap();
        })
        .unwrap();

    let mut w = std::io::BufWriter::new(std::fs::File::create(&out).unwrap());
    let (mut recs, mut evals_n, mut nt_n) = (0u64, 0u64, 0u64);
    let mut samples = vec![];
    loop {
        match rx.recv_timeout(Duration::from_secs(wd)) {
            Ok(Msg::Rec { line, evals, nontrivial, sample }) => {
                recs += 1;
                evals_n += evals;
                nt_n += nontrivial;
                if let Some(s) = sample {
                    if samples.len() < 4 {
                        samples.push(s);
                    }
                }
                writeln!(w, "{}", line).unwrap();
            }
            Ok(Msg::End) => break,
            Err(_) => {
                // a hang is an observable outcome that no specification outcome equals
                let cur: Value = serde_json::from_str(&current.lock().unwrap()).unwrap_or(Value::Null);
                writeln!(w, "{}", json!({"op": cur["op"], "in": cur["in"], "out": {"timeout": wd}, "abnormal": "T"})).unwrap();
                recs += 1;
                break;
            }
        }
    }
    w.flush().unwrap();
    println!("{}", json!({"records": recs, "evaluations": evals_n, "nontrivial": nt_n, "samples": samples}));
    std::process::exit(0);
}
