//! replay <cases.ndjson> <mismatches.ndjson> <watchdog-seconds>
//! Drive the real library with the cases the TLA+ specification emitted and compare
//! every outcome with the specified one.  Prints a one-line JSON summary.
use pkgsrc_conform::guard::*;
use pkgsrc_conform::ops;
use serde_json::{json, Value};
use std::collections::HashMap;
use std::io::{BufRead, BufReader, Write};
use std::sync::{mpsc, Arc, Mutex};
use std::time::Duration;

enum Msg {
    Done { evals: u64, nontrivial: u64, mismatches: Vec<(String, Value)>, sample: Option<Value> },
    End,
}

fn main() {
    let args: Vec<String> = std::env::args().collect();
    let (cases, out, wd) = (args[1].clone(), args[2].clone(), args[3].parse::<u64>().unwrap());
    silence_panics();
    let current: Current = Arc::new(Mutex::new(String::new()));
    let cur2 = current.clone();
    let (tx, rx) = mpsc::channel::<Msg>();
    std::thread::Builder::new()
        .stack_size(256 << 20)
        .spawn(move || {
            let f = BufReader::new(std::fs::File::open(&cases).expect("cases file"));
            let mut st = ops::State::default();
            let mut n = 0u64;
            // distinct inputs: non-trivial cases are counted once per distinct input
            let mut seen: std::collections::HashSet<u64> = std::collections::HashSet::new();
            for line in f.lines() {
                let line = line.unwrap();
                if line.trim().is_empty() {
                    continue;
                }
                *cur2.lock().unwrap() = line.clone();
                let case: Value = serde_json::from_str(&line).expect("case json");
                let op = case["op"].as_str().unwrap_or("").to_string();
                let mut res: Option<ops::Out> = None;
                let obs = guarded(|| {
                    match ops::run(&mut st, &op, &case["in"]) {
                        Some(o) => { let v = o.obs.clone(); res = Some(o); v }
                        None => Value::Null,
                    }
                });
                if obs.is_null() && res.is_none() {
                    continue; // header record
                }
                let (evals, mut nontrivial) = res.as_ref().map(|o| (o.evals, o.nontrivial)).unwrap_or((1, 0));
                if nontrivial > 0 && !seen.insert(pkgsrc_conform::util::hash64(&format!("{}{}", op, case["in"]))) {
                    nontrivial = 0;
                }
                // row operations depend on a header record; give every mismatch a self-contained
                // equivalent ("replay_as") that bin/check --replay can run on its own
                let ms = ops::compare(&st, &op, &case, &obs)
                    .into_iter()
                    .map(|m| {
                        let mut c = json!({"op": op, "in": case["in"], "detail": m.detail});
                        if op == "patrow" {
                            let mut ns: Vec<Value> = st.names.iter().map(|n| pkgsrc_conform::util::codes(n)).collect();
                            if let Some(xs) = case["in"]["xs"].as_array() { ns.extend(xs.iter().cloned()); }
                            c["replay_as"] = json!({"op": "patmatch", "in": {"p": case["in"]["p"], "ns": ns}});
                        } else if op == "verrow" {
                            c["replay_as"] = json!({"op": "vercmp", "in": {"a": pkgsrc_conform::util::codes(m.detail["a"].as_str().unwrap_or("")),
                                                                             "b": pkgsrc_conform::util::codes(m.detail["b"].as_str().unwrap_or(""))}});
                        }
                        (m.tag, c)
                    })
                    .collect();
                n += 1;
                let sample = if n % 997 == 1 { Some(json!({"op": op, "in": case["in"], "observed": obs})) } else { None };
                tx.send(Msg::Done { evals, nontrivial, mismatches: ms, sample }).unwrap();
            }
            tx.send(Msg::End).unwrap();
        })
        .unwrap();

    let mut w = std::io::BufWriter::new(std::fs::File::create(&out).unwrap());
    let (mut cases_n, mut evals_n, mut nt_n) = (0u64, 0u64, 0u64);
    let mut counts: HashMap<String, u64> = HashMap::new();
    let mut samples = vec![];
    loop {
        match rx.recv_timeout(Duration::from_secs(wd)) {
            Ok(Msg::Done { evals, nontrivial, mismatches, sample }) => {
                cases_n += 1;
                evals_n += evals;
                nt_n += nontrivial;
                if let Some(s) = sample {
                    if samples.len() < 4 {
                        samples.push(s);
                    }
                }
                for (tag, detail) in mismatches {
                    let c = counts.entry(tag.clone()).or_insert(0);
                    *c += 1;
                    if *c <= 100 {
                        writeln!(w, "{}", json!({"tag": tag, "case": detail})).unwrap();
                    }
                }
            }
            Ok(Msg::End) => break,
            Err(mpsc::RecvTimeoutError::Timeout) => {
                let line = current.lock().unwrap().clone();
                let case: Value = serde_json::from_str(&line).unwrap_or(Value::Null);
                writeln!(w, "{}", json!({"tag": "", "case": {"op": case["op"], "in": case["in"],
                    "detail": {"observed": "timeout", "seconds": wd}}})).unwrap();
                *counts.entry(String::new()).or_insert(0) += 1;
                break;
            }
            Err(mpsc::RecvTimeoutError::Disconnected) => {
                writeln!(w, "{}", json!({"tag": "", "case": {"detail": {"observed": "harness thread died"}}})).unwrap();
                *counts.entry(String::new()).or_insert(0) += 1;
                break;
            }
        }
    }
    w.flush().unwrap();
    println!("{}", json!({"cases": cases_n, "evaluations": evals_n, "nontrivial": nt_n,
        "mismatch_counts": counts, "samples": samples}));
    std::process::exit(0);
}
