"""What MANIFEST.json claims, per property."""

TECH = "TLA+ spec + TLC model checking; conformance: TLC-emitted cases replayed into the code and recorded traces validated by TLC"

HOOKS = {
    "guard": "pkgsrc_verif",
    "enable": "harness/.cargo/config.toml builds /repo (path dependency) with rustflags --cfg pkgsrc_verif; the only hook is Plist::verif_entries() (the private entry vector), every other specification action is observed at the return of a public call",
    "baseline_off_cmd": "cd /repo && cargo test --workspace --no-fail-fast --offline",
    "source_commits": ["c5ad7b4"],
    "add_only": True,
}

NOTES = ("Every check: (1) rebuilds harness/ against /repo's working tree, (2) model-checks the TLA+ modules of the "
         "property with TLC, (3) replays TLC-emitted cases into the real code, (4) validates traces recorded from the "
         "real code with TLC, (5) classifies mismatches against known_findings.json. Exit 0/1/2 = held / VIOLATION / "
         "tool failure. See DESIGN.md.")

CHECKS = {
    "C01": {
        "text": "The dewey rule table and comparison are an explicit TLA+ specification (Dewey.tla). TLC checks the tokeniser machine and the comparison machine (one action per branch of the code) against the declarative definitions on bounded domains; the complete sign table of all ordered pairs of versions of <= 2 tokens is emitted by TLC and every pair is asked 9 questions of the real code (4 operators via Pattern, 4 via Dewey, best_match); 20k/300k seeded random pairs (Unicode, 18-digit runs, mixed case) are recorded from the code and re-evaluated by TLC.",
        "design_ref": "DESIGN.md section 5, C01",
        "note": "Exhaustive only within the bounded token domain; beyond it the assurance is the seeded random trace validation. The specification is the oracle. Known finding KF1 (letter weight = ASCII code) is reported, not failed.",
        "technique": TECH,
    },
    "C03": {
        "text": "Order laws (trichotomy, duality, reflexivity, side independence, transitivity, two-bound = conjunction) are TLC invariants over all pairs/triples of a bounded vector domain, for the declarative order and for the transcription of dewey_cmp; for the real code, verdicts for seeded random triples (including strings outside any reference model: non-ASCII, 19-40 digit runs) are recorded and the laws are validated by TLC on the observed verdicts themselves.",
        "design_ref": "DESIGN.md section 5, C03",
        "note": "Laws on the code are checked on sampled triples, not proved; the bounded TLC instance covers vectors of length <= 2/3 over {-1,0,1}.",
        "technique": TECH,
    },
}

CHECKS.update({
    "C02": {
        "text": "Dewey::new's operator scan and Dewey::matches are TLA+ operators (Dewey.tla) checked by TLC against a scan-free grammar of comparison patterns for every string of <= 5 symbols over {a b - > < = 1 2 e-acute}; every such pattern's compile verdict and match row (through Pattern and through the standalone Dewey matcher) is replayed on the real code; random grammar-derived patterns are recorded from the code and re-evaluated by TLC.",
        "design_ref": "DESIGN.md section 5, C02",
        "note": "Exhaustive within the bounded alphabet/length; error kind and position are not compared. KF1 applies to bound evaluation.",
        "technique": TECH,
    },
    "C04": {
        "text": "csh brace expansion is defined declaratively (Csh) and operationally (BraceAlg = the implemented right-most-group algorithm) in Pattern.tla; TLC checks them equal, and the implemented matcher equal to 'some expansion compiles and matches', for every string of <= 7/9 symbols over { } , a b and every concatenation of <= 5/6 pieces over { } , a b -1 >1 *; each brace pattern is replayed on the real code against a name list, all of its expansions and all near-miss strings; random brace trees with dewey/glob tails are validated by TLC.",
        "design_ref": "DESIGN.md section 5, C04",
        "note": "Bounded enumeration plus seeded random trees (depth <= 3, <= 6 alternatives).",
        "technique": TECH,
    },
    "C05": {
        "text": "Shell-glob matching (textbook recursive definition), dispatch and the two-character fast reject are TLA+ operators; TLC checks fast-reject inertness and 'plain = identical string' on every pattern of <= 3/4 items over {a b - 1 * ? [ab] [!a] [0-9]} against all short names, and replays every pattern's verdict row on the real code; random well-formed globs with names differing in the first/second character are validated by TLC.",
        "design_ref": "DESIGN.md section 5, C05",
        "note": "Only the shell-glob subset on which all glob engines agree is judged ('**', '[]', '[^x]', backslash are not).",
        "technique": TECH,
    },
    "C06": {
        "text": "best_match as a reduction operator is a TLA+ state machine (BestMatch.tla, action Reduce(i,j)); TLC explores every order of pairwise reduction of every pool of <= 3/4 candidates (10 names x 4 patterns) and checks the survivor is the unique matching candidate no other beats; simulated reduction behaviours are replayed step by step on the real code; recorded random reductions (pools <= 8) are validated through the same Reduce action, and best_match pairs in both argument orders by the declarative definition.",
        "design_ref": "DESIGN.md section 5, C06",
        "note": "Bounded pools; the comparison underneath is C01's (KF1 applies).",
        "technique": TECH,
    },
})

def _e(text, ref, note):
    return {"text": text, "design_ref": "DESIGN.md section 5, " + ref, "note": note, "technique": TECH}


CHECKS.update({
    "C07": _e("The pkg_summary entry is a TLA+ state machine (Summary.tla: SetVal/PushVal over the full 23-variable table, Render, Parse). TLC explores every set_/push_ history of depth 3/4 over a reduced table (TypeOK, print->parse and parse->print round trips, one line per value); 500/5000 simulated 40-call histories over the full table are replayed on three fresh Summary values each with all 23 getters, the printed text and is_completed() compared after every call; recorded random histories (two random call orders with overwritten noise) are validated call by call through the same machine.",
              "C07", "Values without CR/LF and non-empty lists only (the statement's domain). Independence from HashMap iteration order is sampled on three instances per history, not proved."),
    "C08": _e("Summary::from_str is transcribed (Parse) next to the declarative set of causes a text contains (Causes); TLC checks 'Ok iff no cause, Err names a cause' and the accumulate/last-wins rules on a canonical 23-variable entry under every single edit (quick) / pair of edits (thorough) and emits each text for the real parser; recorded random texts (shuffled, repeated, 0-2 faults, CRLF) are validated by TLC.",
              "C08", "With several faults any present cause is accepted (the statement does not fix which is reported first)."),
    "C09": _e("Two-level TLA+ specification (SummaryStream.tla): the property as a nondeterministic specification of which write outcomes are allowed, and the implemented algorithm (append, longest valid UTF-8 prefix, last separator, parse, drain) as a deterministic machine. TLC checks the refinement for every stream of <= 3/4 records over an abstract byte alphabet and EVERY partition into writes; simulated partitions are mapped to real pkg_summary bytes, run on the real SummaryStream and validated write by write; real streams are cut systematically (one call, byte-at-a-time, fixed sizes, every single cut, pairs of cuts) and every write is validated against Allowed with real entry validity (Summary!Parse).",
              "C09", "Abstract alphabet for the exhaustive part; failure timing and invalid-UTF-8 streams are judged only as far as the statement fixes them (DESIGN.md)."),
    "C10": _e("distinfo parsing (line classification, fold) and writing are TLA+ operators (Distinfo.tla). TLC checks write->parse = identity and parse->write = identity on every Distinfo value of <= 2/3 entries over names with sub-directories and bytes >= 0x80 (valid and invalid UTF-8), all six algorithms, sizes up to u64::MAX, and emits every canonical text for the real code; random canonical files and API-assembled values (insert/set_rcsid) are recorded and validated by TLC.",
              "C10", "Names equal as paths but different as bytes are not generated; patch entries carry no size."),
    "C11": _e("The fold over lines is checked by TLC against a declarative grouping (first-appearance order, checksums in line order, last size wins, patches apart, ignorable lines are no-ops) for every sequence of <= 3/4 lines over 26 line kinds, including every exception of the patch-file rule; each text is replayed on the real parser; random interleavings with names over arbitrary non-blank bytes are validated by TLC.",
              "C11", "Truncated checksum lines and 'emul-patch-x' are not judged (ambiguous in the statement)."),
    "C12": _e("The lookup loop of find_entry is a TLA+ machine checked equal to 'the shortest recorded trailing sub-path' for every path of <= 3/4 components and every set of <= 2/3 recorded names (trailing sub-paths, distractors sharing the tail); every configuration x contents x corruption (hash altered at hex position 1/9/32, hash of another file, patch hashed as plain file, size off by one) is materialised as real files, verified by the real code and validated by TLC: outcome kinds and carried expected/actual values. Hashes are interpreted by the oracle on the bytes the specification says are absorbed.",
              "C12", "H is uninterpreted in TLC; the harness's claim of the absorbed bytes is validated against Digest!PatchFilter."),
    "C13": _e("The read loop of hash_file/hash_patch is a TLA+ state machine (DigestReader.tla: Read(k), Interrupted, HardError, Eof; pending line buffer in patch mode). TLC checks 'absorbed bytes = reference, for every schedule' for all inputs of length <= 5/7 over {x, newline, $, N} with a two-symbol marker and all schedules of reads of 1..3 bytes; simulated schedules are mapped to real bytes and replayed through a scripted reader for all six algorithms; recorded random inputs x schedules are validated through the same machine. The clause 'equals the standard algorithm' is a differential known-answer test of the library and of the oracle against python hashlib (all six algorithms, lengths around every block boundary, 4 KiB, 70 KB).",
              "C13", "TLC cannot evaluate the hash functions themselves; that clause is claimed at known-answer strength only."),
    "C14": _e("The four-index line scanner of Plist::from_bytes is transcribed into TLA+ and checked by TLC against 'maximal newline-free segments containing a non-blank byte' for every byte string of length <= 7/9 over {a, space, tab, newline, @}; the command table with its argument rules is a TLA+ table; strings of length <= 6/7 and every command word x 12 argument classes are replayed on the real list parser and single-line parser; recorded random lists are validated by TLC including 'each entry = the line parsed alone'. The private entry vector is observed through the guarded hook Plist::verif_entries().",
              "C14", "Lines/arguments where 'blank' is ambiguous (bytes 0B 0C 0D 85 A0) are not judged; error kinds are not compared."),
    "C15": _e("The twelve queries are stated declaratively in TLA+ from the property's sentence and, separately, as the four implemented one-pass loops with an ignore flag and a prefix; TLC checks them equal (and that all views list the same files) for every sequence of <= 3/5 entries over 18 entry kinds; sequences of <= 3/4 entries are rendered to PLIST text and all queries compared on the real code; recorded random lists of <= 60 entries are validated by TLC.",
              "C15", "Bounded enumeration plus seeded random lists."),
    "C16": _e("ScanIndex::from_reader is a TLA+ reader machine (StepLine / StepIoError / StepEof) checked by TLC against a declarative block reading for every sequence of <= 3/4 lines over 15 line kinds with an I/O error injected at every position; each behaviour is replayed through a scripted reader with all public fields compared; recorded random files (record-tagged values so that leakage between neighbouring records is visible, faults, I/O errors) are validated line by line through the machine.",
              "C16", "Lines with blanks between key and '=' and invalid UTF-8 are outside the judged domain."),
    "C17": _e("Termination of the specification's machines is a TLC action property (strictly increasing indices). Every entry point of the statement is driven with hostile inputs (mutated valid documents, huge numbers, NUL, invalid UTF-8, long runs) under catch_unwind and a per-call watchdog; TLC validates every recorded outcome: returned normally with an outcome of the allowed shape. Every other property's check treats a panic or hang as a mismatch as well.",
              "C17", "Absence of panics is sampled (6k/60k hostile calls per run plus all calls of the other checks), not proved; brace nesting is capped."),
    "C18": _e("PkgName's split, the Summary accessors and the matcher's own split are TLA+ operators; TLC checks losslessness, 'reported revision = the revision the tokeniser uses' and 'a name matches the pattern built from its own split' for every concatenation of <= 5/6 tokens over {a n b nb 1 2 - .}, and replays each on the real code; recorded random names carry probe patterns that pin the revision the real comparison uses, validated by TLC.",
              "C18", "The reported revision is judged for versions without 'nb' and versions ending in nb<digits>."),
    "C19": _e("Rust's Path::components and PkgPath::new / Depend::new are TLA+ operators; TLC checks accept <=> the statement's two forms, equality of both spellings and the re-parse fixpoint for every path of <= 4/6 segments over {.. . a b empty} and every dependency string of <= 3/4 parts, replays each on the real code (component-wise), and validates recorded random inputs.",
              "C19", "Bounded enumeration plus seeded random strings."),
    "C20": _e("Database iteration is specified over directory configurations (which entries are valid packages, how names split) and Metadata as a state machine (ReadMetadata over the 14-entry table); TLC enumerates every database of <= 2/3 entries and every read history of <= 2/3 calls, the harness materialises each as a real directory tree / call sequence and compares (multisets, every +FILE read back); recorded random trees and histories are validated by TLC; the file-name bijection is an ASSUME checked by TLC and probed both ways on the code.",
              "C20", "File-system faults and non-UTF-8 directory names are outside the stated quantifiers."),
    "C18b": None,
})
CHECKS.pop("C18b")

NOT_APPLICABLE = {}

# Additions of the fifth session (DESIGN.md 11.5d, 12.1 round 5), appended to the claimed texts.
ADDENDA = {
    "C01": " The patmatrix histories (related patterns x names incl. case twins, both evaluation orders on the same compiled patterns) are validated too: a verdict is a function of the two versions, not of earlier calls.",
    "C02": " Every row is also asked through best_match(n, n) (BestSelfL).",
    "C04": " Every (pattern, name) row - all expansions and near misses - is asked through Pattern::matches and through best_match(n, n) (BestSelfL, checked equal by TLC); generated patterns include nesting depth 255-300 and 2^17 expansions.",
    "C05": " Rows are asked through matches and through best_match(n, n); generated patterns end, now and then, in a literal harvested from the code under test (line ends, blanks, metacharacters).",
    "C09": " One recorded stream per run holds a single 1.2 MB record written in 300 000-byte pieces.",
    "C10": " Names on which the code's patch test and the statement's globs differ (emul-patch-x) are not judged (Distinfo!PatchJudged).",
    "C11": " Every parsed text is probed with recorded names, their last components and longer/shorter spellings: a lookup finds an entry exactly under its recorded name in its own table (hits). Generated names and first lines draw on the literals of the code under test (dict.rs).",
    "C12": " After the first verification the file is overwritten in place (same length and modification time, one byte changed) and verified again: the outcome follows the current content (AgainOK). Patch files are built around buffer boundaries (4 KiB ... 128 KiB).",
    "C17": " An exhausted PkgDB iterator is called twice more.",
    "C18": " Probes also ask best_match to choose between the name and dewey-equal candidates with more components and a higher / equal / lower revision.",
    "C20": " +CONTENTS files reach across the 65 536th and 1 048 576th byte; next() after the end yields nothing.",
}
for _k, _v in ADDENDA.items():
    CHECKS[_k]["text"] += _v
