"""What MANIFEST.json claims, per property."""

TECH = "TLA+ spec + TLC model checking; conformance: TLC-emitted cases replayed into the code and recorded traces validated by TLC"

HOOKS = {
    "guard": "pkgsrc_verif",
    "enable": "no hooks are needed or present: the harness (harness/.cargo/config.toml) builds /repo with --cfg pkgsrc_verif, which no source line tests; every specification action is observed at the return of a public call",
    "baseline_off_cmd": "cd /repo && cargo test --workspace --no-fail-fast --offline",
    "source_commits": [],
    "add_only": True,
}

NOTES = ("Every check: (1) rebuilds harness/ against /repo's working tree, (2) model-checks the TLA+ modules of the "
         "property with TLC, (3) replays TLC-emitted cases into the real code, (4) validates traces recorded from the "
         "real code with TLC, (5) classifies mismatches against known_findings.json. Exit 0/1/2 = held / VIOLATION / "
         "tool failure. See DESIGN.md.")

CHECKS = {
    "C01": {
        "text": "The dewey rule table and comparison are an explicit TLA+ specification (Dewey.tla). TLC checks the tokeniser machine and the comparison machine (one action per branch of the code) against the declarative definitions on bounded domains; the complete sign table of all ordered pairs of versions of <= 2 tokens is emitted by TLC and every pair is asked 9 questions of the real code (4 operators via Pattern, 4 via Dewey, best_match); 20k/300k seeded random pairs (Unicode, 18-digit runs, mixed case) are recorded from the code and re-evaluated by TLC.",
        "design_ref": "DESIGN.md section 5, C01",
        "note": "Exhaustive only within the bounded token domain; beyond it the assurance is the seeded random trace validation. The specification is the oracle. Known finding KF1 (letter weight = ASCII code) is reported, not failed.",
        "technique": TECH,
    },
    "C03": {
        "text": "Order laws (trichotomy, duality, reflexivity, side independence, transitivity, two-bound = conjunction) are TLC invariants over all pairs/triples of a bounded vector domain, for the declarative order and for the transcription of dewey_cmp; for the real code, verdicts for seeded random triples (including strings outside any reference model: non-ASCII, 19-40 digit runs) are recorded and the laws are validated by TLC on the observed verdicts themselves.",
        "design_ref": "DESIGN.md section 5, C03",
        "note": "Laws on the code are checked on sampled triples, not proved; the bounded TLC instance covers vectors of length <= 2/3 over {-1,0,1}.",
        "technique": TECH,
    },
}

NOT_APPLICABLE = {}
