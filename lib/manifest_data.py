"""What MANIFEST.json claims, per property."""

TECH = "TLA+ spec + TLC model checking; conformance: TLC-emitted cases replayed into the code and recorded traces validated by TLC"

HOOKS = {
    "guard": "pkgsrc_verif",
    "enable": "no hooks are needed or present: the harness (harness/.cargo/config.toml) builds /repo with --cfg pkgsrc_verif, which no source line tests; every specification action is observed at the return of a public call",
    "baseline_off_cmd": "cd /repo && cargo test --workspace --no-fail-fast --offline",
    "source_commits": [],
    "add_only": True,
}

NOTES = ("Every check: (1) rebuilds harness/ against /repo's working tree, (2) model-checks the TLA+ modules of the "
         "property with TLC, (3) replays TLC-emitted cases into the real code, (4) validates traces recorded from the "
         "real code with TLC, (5) classifies mismatches against known_findings.json. Exit 0/1/2 = held / VIOLATION / "
         "tool failure. See DESIGN.md.")

CHECKS = {
    "C01": {
        "text": "The dewey rule table and comparison are an explicit TLA+ specification (Dewey.tla). TLC checks the tokeniser machine and the comparison machine (one action per branch of the code) against the declarative definitions on bounded domains; the complete sign table of all ordered pairs of versions of <= 2 tokens is emitted by TLC and every pair is asked 9 questions of the real code (4 operators via Pattern, 4 via Dewey, best_match); 20k/300k seeded random pairs (Unicode, 18-digit runs, mixed case) are recorded from the code and re-evaluated by TLC.",
        "design_ref": "DESIGN.md section 5, C01",
        "note": "Exhaustive only within the bounded token domain; beyond it the assurance is the seeded random trace validation. The specification is the oracle. Known finding KF1 (letter weight = ASCII code) is reported, not failed.",
        "technique": TECH,
    },
    "C03": {
        "text": "Order laws (trichotomy, duality, reflexivity, side independence, transitivity, two-bound = conjunction) are TLC invariants over all pairs/triples of a bounded vector domain, for the declarative order and for the transcription of dewey_cmp; for the real code, verdicts for seeded random triples (including strings outside any reference model: non-ASCII, 19-40 digit runs) are recorded and the laws are validated by TLC on the observed verdicts themselves.",
        "design_ref": "DESIGN.md section 5, C03",
        "note": "Laws on the code are checked on sampled triples, not proved; the bounded TLC instance covers vectors of length <= 2/3 over {-1,0,1}.",
        "technique": TECH,
    },
}

CHECKS.update({
    "C02": {
        "text": "Dewey::new's operator scan and Dewey::matches are TLA+ operators (Dewey.tla) checked by TLC against a scan-free grammar of comparison patterns for every string of <= 5 symbols over {a b - > < = 1 2 e-acute}; every such pattern's compile verdict and match row (through Pattern and through the standalone Dewey matcher) is replayed on the real code; random grammar-derived patterns are recorded from the code and re-evaluated by TLC.",
        "design_ref": "DESIGN.md section 5, C02",
        "note": "Exhaustive within the bounded alphabet/length; error kind and position are not compared. KF1 applies to bound evaluation.",
        "technique": TECH,
    },
    "C04": {
        "text": "csh brace expansion is defined declaratively (Csh) and operationally (BraceAlg = the implemented right-most-group algorithm) in Pattern.tla; TLC checks them equal, and the implemented matcher equal to 'some expansion compiles and matches', for every string of <= 7/9 symbols over { } , a b and every concatenation of <= 5/6 pieces over { } , a b -1 >1 *; each brace pattern is replayed on the real code against a name list, all of its expansions and all near-miss strings; random brace trees with dewey/glob tails are validated by TLC.",
        "design_ref": "DESIGN.md section 5, C04",
        "note": "Bounded enumeration plus seeded random trees (depth <= 3, <= 6 alternatives).",
        "technique": TECH,
    },
    "C05": {
        "text": "Shell-glob matching (textbook recursive definition), dispatch and the two-character fast reject are TLA+ operators; TLC checks fast-reject inertness and 'plain = identical string' on every pattern of <= 3/4 items over {a b - 1 * ? [ab] [!a] [0-9]} against all short names, and replays every pattern's verdict row on the real code; random well-formed globs with names differing in the first/second character are validated by TLC.",
        "design_ref": "DESIGN.md section 5, C05",
        "note": "Only the shell-glob subset on which all glob engines agree is judged ('**', '[]', '[^x]', backslash are not).",
        "technique": TECH,
    },
    "C06": {
        "text": "best_match as a reduction operator is a TLA+ state machine (BestMatch.tla, action Reduce(i,j)); TLC explores every order of pairwise reduction of every pool of <= 3/4 candidates (10 names x 4 patterns) and checks the survivor is the unique matching candidate no other beats; simulated reduction behaviours are replayed step by step on the real code; recorded random reductions (pools <= 8) are validated through the same Reduce action, and best_match pairs in both argument orders by the declarative definition.",
        "design_ref": "DESIGN.md section 5, C06",
        "note": "Bounded pools; the comparison underneath is C01's (KF1 applies).",
        "technique": TECH,
    },
})

NOT_APPLICABLE = {}
