"""Driver core: build the harness, run TLC, replay / record, classify, write evidence.

Exit codes of bin/check: 0 = held on everything explored (KNOWN-FINDING lines allowed),
1 = VIOLATION (line printed, replay file written), 2 = failure of the machinery itself.
"""
import json, os, re, shutil, subprocess, sys, time

VERIF = os.path.dirname(os.path.dirname(os.path.abspath(__file__)))
SPEC = os.path.join(VERIF, "spec")
HARNESS = os.path.join(VERIF, "harness")
REPO = "/repo"
TLA_CP = "/opt/veriftools/tla/tla2tools.jar:/opt/veriftools/tla/CommunityModules-deps.jar"
WORKERS = int(os.environ.get("VERIF_WORKERS", "12"))


class ToolFailure(Exception):
    pass


def log(msg):
    print(msg, flush=True)


def build_harness():
    """cargo build of the conformance harness against /repo's working tree."""
    lock = os.path.join(HARNESS, "Cargo.lock")
    if not os.path.exists(lock):
        shutil.copy(os.path.join(REPO, "Cargo.lock"), lock)
    env = dict(os.environ, CARGO_NET_OFFLINE="true")
    t0 = time.time()
    p = subprocess.run(["cargo", "build", "--release", "--offline", "--quiet"],
                       cwd=HARNESS, env=env, capture_output=True, text=True)
    if p.returncode != 0:
        sys.stderr.write(p.stdout + p.stderr)
        raise ToolFailure("harness build failed (does /repo compile?)")
    return time.time() - t0


def harness_bin(name):
    return os.path.join(HARNESS, "target", "release", name)


_case_re = re.compile(r'^<<"(CASE|MISMATCH|INFO)", (.*)>>$')


def _parse_tla_string(lit):
    """A TLA+ string literal as printed by TLC ("..." with \\" and \\\\ escapes)."""
    return json.loads(lit)


class TlcResult:
    def __init__(self):
        self.generated = 0
        self.distinct = 0
        self.cases = []          # parsed JSON of <<"CASE", "json">> lines
        self.mismatches = []     # raw tuples text of <<"MISMATCH", ...>>
        self.info = []
        self.error = None        # text of the first TLC error, if any
        self.deadlock_state = None
        self.coverage = {}       # action name -> count
        self.wall = 0.0
        self.stdout = ""


def run_tlc(work, module, cfg, env=None, workers=None, timeout=900, simulate=None,
            seed=None, depth_first=False, cases_to=None, xmx="8g", coverage=True):
    """Run TLC on spec/<module>.tla with spec/<cfg>.  CASE lines are streamed to the
    file cases_to (one JSON document per line) if given, else collected."""
    os.makedirs(work, exist_ok=True)
    tmp = os.path.join(work, "tmp")
    meta = os.path.join(work, "states-" + module + "-" + str(os.getpid()))
    shutil.rmtree(meta, ignore_errors=True)
    os.makedirs(tmp, exist_ok=True)
    xmx = os.environ.get("VERIF_XMX", xmx)     # (parallel lanes of tools/parseed.py use a smaller heap)
    jopts = ["-XX:+UseParallelGC", "-Xss512m", "-Xmx" + xmx, "-Djava.io.tmpdir=" + tmp]
    if depth_first:
        jopts.append("-Dtlc2.tool.queue.IStateQueue=StateDeque")
    cmd = ["timeout", str(timeout), "java"] + jopts + ["-cp", TLA_CP, "tlc2.TLC",
           "-workers", str(workers or WORKERS), "-metadir", meta,
           "-cleanup", "-noGenerateSpecTE", "-maxSetSize", "20000000", "-config", cfg]
    # (-maxSetSize: TLC refuses to build a set or sequence of more than 10^6 elements by default;
    # the index sequence of a 1.2 MB stream is one)
    # Per-action coverage is opt-in (VERIF_COVERAGE=1): TLC's cost-model creation walks every
    # definition at every use site, which stopped terminating in reasonable time once the text
    # operators were written with LAMBDA / FoldLeft instead of RECURSIVE (minutes on one thread
    # before the first state).  Non-vacuity is witnessed by the CASE / record counts instead.
    if coverage and os.environ.get("VERIF_COVERAGE") == "1":
        # per-action counts; not for trace validation (with -coverage TLC re-reads the trace
        # constant instead of caching it and runs out of memory)
        cmd += ["-coverage", "1"]
    if seed is not None:
        cmd += ["-seed", str(seed)]
    if simulate:
        cmd += ["-simulate", simulate]
    cmd.append(module + ".tla")
    e = dict(os.environ)
    e.pop("JAVA_TOOL_OPTIONS", None)
    if env:
        e.update(env)
    t0 = time.time()
    res = TlcResult()
    out_lines = []
    casef = open(cases_to, "w") if cases_to else None
    proc = subprocess.Popen(cmd, cwd=SPEC, env=e, stdout=subprocess.PIPE,
                            stderr=subprocess.STDOUT, text=True, errors="replace")
    err_lines = None
    cur_action = None
    for line in proc.stdout:
        line = line.rstrip("\n")
        m = _case_re.match(line)
        if m:
            kind, body = m.group(1), m.group(2)
            if kind == "CASE":
                doc = _parse_tla_string(body)
                if casef:
                    casef.write(doc + "\n")
                else:
                    res.cases.append(json.loads(doc))
            elif kind == "MISMATCH":
                res.mismatches.append(body)
            else:
                res.info.append(body)
            continue
        if line.startswith(("Parsing file", "Semantic processing", "Linting of")):
            continue
        out_lines.append(line)
        if line.startswith("Error:") and res.error is None:
            res.error = line
            err_lines = []
        if err_lines is not None and len(err_lines) < 400:
            err_lines.append(line)
        m = re.match(r"^(\d+) states generated, (\d+) distinct states found", line)
        if m:
            res.generated, res.distinct = int(m.group(1)), int(m.group(2))
        m = re.match(r"^<(\w+) line \d+, col \d+ to line \d+, col \d+ of module (\w+)>: (\d+):(\d+)", line)
        if m:
            res.coverage[m.group(1)] = res.coverage.get(m.group(1), 0) + int(m.group(4))
        m = re.match(r"^The number of states generated: (\d+)", line)
        if m and simulate:
            res.generated = int(m.group(1))
            res.distinct = int(m.group(1))      # simulation: states visited along the behaviours
    rc = proc.wait()
    if casef:
        casef.close()
    res.wall = time.time() - t0
    res.stdout = "\n".join(out_lines[-300:])
    res.error_text = "\n".join(err_lines) if err_lines else ""
    shutil.rmtree(meta, ignore_errors=True)
    for d in os.listdir(tmp):
        shutil.rmtree(os.path.join(tmp, d), ignore_errors=True)
    if rc == 124:
        raise ToolFailure("TLC timed out after %ss on %s" % (timeout, module))
    res.rc = rc
    return res


class Ctx:
    """One check run of one property."""

    def __init__(self, pid, tier, seed, replay=None):
        self.pid, self.tier, self.seed = pid, tier, seed
        self.quick = tier == "quick"
        self.work = os.path.join(VERIF, "work", pid)
        os.makedirs(self.work, exist_ok=True)
        self.t0 = time.time()
        self.states = 0
        self.transitions = 0
        self.traces = 0           # behaviours replayed + recorded traces validated
        self.evaluations = 0
        self.nontrivial = 0
        self.samples = []
        self.stages = []
        self.violations = []      # dicts
        self.known = {}           # finding id -> list of cases
        self.coverage = {}
        self.exhaustive = False
        self.assumptions = []
        self.rule = ""
        self.findings = load_findings()

    # ---- TLC model checking of the specification itself ------------------------------
    def mc(self, module, cfg, timeout=1800, **kw):
        log("[%s] TLC model check %s (%s)" % (self.pid, module, cfg))
        r = run_tlc(self.work, module, cfg, timeout=timeout, **kw)
        if r.error or r.rc != 0:
            sys.stderr.write(r.stdout + "\n")
            raise ToolFailure("TLC reported an error on the specification %s/%s: %s"
                              % (module, cfg, r.error))
        self.states += r.distinct
        self.transitions += r.generated
        for a, n in r.coverage.items():
            self.coverage[module + "." + a] = self.coverage.get(module + "." + a, 0) + n
        self.stages.append({"stage": "model-check", "module": module, "cfg": cfg,
                            "distinct_states": r.distinct, "states_generated": r.generated,
                            "wall_s": round(r.wall, 1), "cases_emitted": len(r.cases)})
        log("[%s]   %d distinct states, %d generated, %.1fs" % (self.pid, r.distinct, r.generated, r.wall))
        return r

    # ---- symbolic bounded check of the specification (Apalache) -----------------------
    def apalache(self, module, inv, timeout=600):
        """apalache-mc check --inv=<inv> --length=0 on spec/apalache/<module>.tla (symbolic integers).
        A violated invariant is a defect of the specification (tool failure); if Apalache itself
        cannot run, the stage is recorded as skipped (TLC's bounded instances remain)."""
        out = os.path.join(self.work, "apalache")
        shutil.rmtree(out, ignore_errors=True)
        t0 = time.time()
        try:
            p = subprocess.run(["timeout", str(timeout), "apalache-mc", "check", "--inv=" + inv, "--length=0",
                                "--out-dir=" + out, os.path.join(SPEC, "apalache", module + ".tla")],
                               capture_output=True, text=True, cwd=self.work)
            txt = p.stdout + p.stderr
        except OSError as e:
            txt, p = str(e), None
        shutil.rmtree(out, ignore_errors=True)
        ok = p is not None and "The outcome is: NoError" in txt
        violated = "invariant" in txt and "violated" in txt
        self.stages.append({"stage": "apalache symbolic check", "module": module, "invariant": inv,
                            "outcome": "NoError" if ok else ("violated" if violated else "not run"),
                            "wall_s": round(time.time() - t0, 1)})
        log("[%s] Apalache %s %s: %s (%.1fs)" % (self.pid, module, inv, "NoError" if ok else ("VIOLATED" if violated else "not run"), time.time() - t0))
        if violated:
            raise ToolFailure("Apalache: invariant %s of %s violated (defect of the specification)" % (inv, module))
        return ok

    # ---- unbounded proof of laws of the specification (TLAPS) ---------------------------
    def tlaps(self, module, timeout=900):
        """tlapm on spec/tlaps/<module>.tla (copied to the work directory, where tlapm keeps its
        cache).  Failed obligations are a defect of the specification / proof (tool failure); if
        tlapm itself cannot run the stage is recorded as not run."""
        d = os.path.join(self.work, "tlaps")
        shutil.rmtree(d, ignore_errors=True)
        os.makedirs(d)
        shutil.copy(os.path.join(SPEC, "tlaps", module + ".tla"), d)
        t0 = time.time()
        try:
            p = subprocess.run(["timeout", str(timeout), "tlapm", "--threads", "8", module + ".tla"],
                               capture_output=True, text=True, cwd=d)
            txt = p.stdout + p.stderr
        except OSError as e:
            txt = str(e)
        shutil.rmtree(d, ignore_errors=True)
        m = re.search(r"All (\d+) obligations proved", txt)
        failed = re.search(r"(\d+)/(\d+) obligations failed", txt)
        self.stages.append({"stage": "tlaps proof", "module": module,
                            "obligations": int(m.group(1)) if m else (int(failed.group(2)) if failed else 0),
                            "discharged": int(m.group(1)) if m else 0,
                            "outcome": "proved" if m else ("failed" if failed else "not run"),
                            "wall_s": round(time.time() - t0, 1)})
        log("[%s] TLAPS %s: %s (%.1fs)" % (self.pid, module, ("all %s obligations proved" % m.group(1)) if m else
                                          ("FAILED " + failed.group(0) if failed else "not run"), time.time() - t0))
        if failed:
            raise ToolFailure("TLAPS: %s in %s" % (failed.group(0), module))
        return bool(m)

    # ---- spec -> implementation ------------------------------------------------------
    def emit_replay(self, module, cfg, name, timeout=1800, extra_env=None, **kw):
        """TLC enumerates the bounded instance and emits one case per CASE line (input +
        expected outcome per the specification); the harness replays them on the real code."""
        cases = os.path.join(self.work, name + ".cases.ndjson")
        log("[%s] TLC emit %s (%s)" % (self.pid, module, cfg))
        r = run_tlc(self.work, module, cfg, timeout=timeout, cases_to=cases, env=extra_env, **kw)
        if r.error or r.rc != 0:
            sys.stderr.write(r.stdout + "\n")
            raise ToolFailure("TLC reported an error while emitting cases %s/%s: %s"
                              % (module, cfg, r.error))
        self.states += r.distinct
        self.transitions += r.generated
        for a, n in r.coverage.items():
            self.coverage[module + "." + a] = self.coverage.get(module + "." + a, 0) + n
        log("[%s]   %d distinct states, %.1fs" % (self.pid, r.distinct, r.wall))
        st = self.replay_cases(cases, name)
        st.update({"module": module, "cfg": cfg, "distinct_states": r.distinct,
                   "states_generated": r.generated, "tlc_wall_s": round(r.wall, 1)})
        return st

    def replay_cases(self, cases, name):
        mm = os.path.join(self.work, name + ".mismatch.ndjson")
        t0 = time.time()
        p = subprocess.run([harness_bin("replay"), cases, mm,
                            "5" if self.quick else "30"],
                           capture_output=True, text=True)
        if p.returncode not in (0,):
            sys.stderr.write(p.stdout + p.stderr)
            raise ToolFailure("replay failed on " + cases)
        summ = json.loads(p.stdout.strip().splitlines()[-1])
        self.evaluations += summ["evaluations"]
        self.nontrivial += summ["nontrivial"]
        self.traces += summ["cases"]
        if summ.get("samples"):
            self.samples.extend(summ["samples"][:2])
        n = 0
        with open(mm) as f:
            for line in f:
                self.add_mismatch(json.loads(line), "replay:" + name)
                n += 1
        st = {"stage": "spec->impl replay", "name": name, "cases": summ["cases"],
              "evaluations": summ["evaluations"], "nontrivial": summ["nontrivial"],
              "mismatches": n, "wall_s": round(time.time() - t0, 1)}
        self.stages.append(st)
        log("[%s]   replayed %d cases (%d evaluations), %d mismatches"
            % (self.pid, summ["cases"], summ["evaluations"], n))
        return st

    # ---- implementation -> spec ------------------------------------------------------
    def emit_run_validate(self, module, cfg, name, trmodule, trcfg, timeout=1800, **kw):
        """TLC emits behaviours (inputs only); the harness runs them on the real code and
        records what happens; TLC validates the recorded trace (spec -> impl -> spec)."""
        cases = os.path.join(self.work, name + ".cases.ndjson")
        log("[%s] TLC emit %s (%s)" % (self.pid, module, cfg))
        r = run_tlc(self.work, module, cfg, timeout=timeout, cases_to=cases, **kw)
        if r.error or r.rc != 0:
            sys.stderr.write(r.stdout + "\n")
            raise ToolFailure("TLC reported an error while emitting behaviours %s/%s: %s" % (module, cfg, r.error))
        self.states += r.distinct
        self.transitions += r.generated
        ncases = sum(1 for _ in open(cases))
        log("[%s]   %d behaviours emitted, %.1fs" % (self.pid, ncases, r.wall))
        return self.record_validate("@cases", ncases, trmodule, trcfg, name=name, args=[cases])

    def record_validate(self, driver, n, module, cfg, name=None, timeout=1800, args=None,
                        sequential=False, devs=None, base_tag="base", seed_offset=0, **kw):
        """The harness drives the real code with seeded generated inputs and records one
        ndjson event per call; TLC re-evaluates the specification along the trace."""
        name = name or driver
        # large runs are validated in chunks (a trace of several hundred MB is too much for one
        # ndJsonDeserialize); each chunk has its own seed
        chunk = kw.pop("chunk", 25000)
        if driver != "@cases" and n > chunk:
            done, i, last = 0, 0, None
            while done < n:
                m = min(chunk, n - done)
                last = self.record_validate(driver, m, module, cfg, name="%s.%d" % (name, i), timeout=timeout, args=args,
                                            sequential=sequential, devs=devs, base_tag=base_tag,
                                            seed_offset=seed_offset + 7919 * i, chunk=chunk, **kw)
                done += m
                i += 1
            return last
        trace = os.path.join(self.work, name + ".trace.ndjson")
        t0 = time.time()
        cmd = [harness_bin("record"), driver, str(self.seed + seed_offset), str(n), trace,
               "5" if self.quick else "30"] + [str(a) for a in (args or [])]
        # size budget for the generators' scale shapes (see harness/src/bin/record.rs): TLC needs
        # about a second per 25 KB of JSON, so the quick tier admits a few inputs of up to ~80 000
        # bytes per driver run and the thorough tier (nearly) everything
        big = kw.pop("big", None) or ((450000, 1200000) if self.quick else (4000000, 12000000))
        renv = dict(os.environ, VERIF_BIG_MAX=str(big[0]), VERIF_BIG_BUDGET=str(big[1]))
        p = subprocess.run(cmd, capture_output=True, text=True, env=renv)
        if p.returncode != 0:
            sys.stderr.write(p.stdout + p.stderr)
            raise ToolFailure("record failed: " + " ".join(cmd))
        summ = json.loads(p.stdout.strip().splitlines()[-1])
        log("[%s] recorded %d events with driver %s (%.1fs); TLC validates with %s"
            % (self.pid, summ["records"], driver, time.time() - t0, module))
        recs = None
        # A call that panicked or did not return has no outcome any specification outcome equals:
        # it is a mismatch by itself (reported with the panic message) and is taken out of the
        # trace, so that the trace specification never has to compare a panic record with a
        # value of another shape (TLC's equality is typed).  Tr_Totality judges "abnormal" itself.
        if module != "Tr_Totality":
            allrecs = [json.loads(l) for l in open(trace)]
            bad = [x for x in allrecs if x.get("abnormal") == "T"]
            if bad:
                for x in bad:
                    self.add_mismatch({"case": x, "tag": "", "what": "the call panicked or did not return: %s"
                                       % json.dumps(x.get("out"))[:300]}, "trace:" + name)
                recs = [x for x in allrecs if x.get("abnormal") != "T"]
                with open(trace, "w") as f:
                    for x in recs:
                        f.write(json.dumps(x) + "\n")
                log("[%s]   %d recorded calls panicked or hung" % (self.pid, len(bad)))
            del allrecs
        # TLC holds the whole trace in memory (several times the size of the JSON text): a large
        # trace is validated in parts of at most ~24 MB
        part_files = []
        if os.path.getsize(trace) > 24 * 1024 * 1024:
            cur, size, idx = None, 0, 0
            for line in open(trace):
                if cur is None or size + len(line) > 24 * 1024 * 1024:
                    if cur:
                        cur.close()
                    idx += 1
                    pf = "%s.part%d" % (trace, idx)
                    part_files.append([pf, 0])
                    cur, size = open(pf, "w"), 0
                cur.write(line)
                size += len(line)
                part_files[-1][1] += 1
            cur.close()
        else:
            part_files = [[trace, -1]]
        bytag = {}
        distinct = generated = 0
        wall = 0.0
        offset = 0
        for pf, count in part_files:
            r = run_tlc(self.work, module, cfg, env={"TRACE": pf}, timeout=timeout,
                        depth_first=sequential, coverage=False, **kw)
            if r.error or r.rc != 0:
                if r.error and "Deadlock" in r.error:
                    precs = [json.loads(l) for l in open(pf)]
                    k, l = parse_deadlock(r.error_text)
                    self.add_mismatch({"case": precs[k - 1] if k else None, "history": k + offset, "event": l,
                                       "what": "trace rejected by the specification at event %s" % l,
                                       "spec_state": r.error_text[-3000:]}, "trace:" + name)
                else:
                    sys.stderr.write(r.stdout + "\n")
                    raise ToolFailure("TLC failed validating trace %s with %s: %s" % (pf, module, r.error))
            for body in r.mismatches:
                parts = json.loads("[" + body + "]")
                k, tag = parts[0] + offset, (parts[1] if len(parts) > 1 else "")
                bytag.setdefault(k, set()).add(tag)
            distinct += r.distinct
            generated += r.generated
            wall += r.wall
            if count >= 0:
                offset += count
                os.remove(pf)
        r.distinct, r.generated, r.wall = distinct, generated, wall
        for k, tags in sorted(bytag.items()):
            if recs is None:
                recs = [json.loads(l) for l in open(trace)]
            if devs:
                # sequential traces are run under the property's model (base) and under every
                # named deviation; a history is judged by which of them reject it
                if base_tag not in tags:
                    continue            # accepted by the property's model
                accepted_by = [fid for t, fid in devs.items() if t not in tags]
                tag = accepted_by[0] if accepted_by else ""
            else:
                tag = sorted(tags)[0]
                tag = "" if tag in ("bad", "base") else tag
            self.add_mismatch({"case": recs[k - 1] if k else None, "tag": tag, "record": k,
                               "what": "recorded outcome differs from the specification"},
                              "trace:" + name)
        self.states += r.distinct
        self.transitions += r.generated
        self.traces += summ["records"]
        self.evaluations += summ["evaluations"]
        self.nontrivial += summ["nontrivial"]
        if summ.get("samples"):
            self.samples.extend(summ["samples"][:2])
        st = {"stage": "impl->spec trace validation", "driver": driver, "module": module,
              "records": summ["records"], "evaluations": summ["evaluations"],
              "nontrivial": summ["nontrivial"], "mismatches": len(bytag),
              "distinct_states": r.distinct, "wall_s": round(time.time() - t0, 1)}
        self.stages.append(st)
        log("[%s]   %d records validated, %d mismatches, %.1fs"
            % (self.pid, summ["records"], len(bytag), r.wall))
        return st

    # ---- classification ---------------------------------------------------------------
    def add_mismatch(self, m, origin):
        m["origin"] = origin
        tag = m.get("tag") or ""
        f = self.findings.get(tag)
        if f and f.get("status") == "open" and self.pid in f["properties"]:
            self.known.setdefault(tag, []).append(m)
        else:
            self.violations.append(m)

    def finish(self, write_evidence=True):
        wall = time.time() - self.t0
        for tag, ms in self.known.items():
            f = self.findings[tag]
            log("KNOWN-FINDING: property=%s %s [%s] (%d cases this run, e.g. %s)"
                % (self.pid, f["what"], tag, len(ms), brief(ms[0])))
        paths = []
        for i, v in enumerate(self.violations[:5]):
            path = os.path.join(self.work, ("violation-%d.json" if write_evidence else "replayed-violation-%d.json") % (i + 1))
            v2 = dict(v, property=self.pid, seed=self.seed, tier=self.tier)
            with open(path, "w") as f:
                json.dump(v2, f, indent=1)
            paths.append(path)
        cov = {
            "states": self.states, "transitions": self.transitions,
            "traces_validated_against_impl": self.traces,
            "samples": self.samples[:6] or ["(none)"],
            "evaluations": self.evaluations, "distinct_nontrivial": self.nontrivial,
            "rule": self.rule, "exhaustive": self.exhaustive,
            "stages": self.stages, "action_coverage": self.coverage,
            "known_findings_observed": {k: len(v) for k, v in self.known.items()},
        }
        ev = {"property_id": self.pid, "tier": self.tier, "seed": self.seed,
              "level": "model_checking", "coverage": cov, "assumptions": self.assumptions,
              "wall_s": round(wall, 1), "violations": len(self.violations)}
        if write_evidence:
            os.makedirs(os.path.join(VERIF, "evidence"), exist_ok=True)
            with open(os.path.join(VERIF, "evidence", self.pid + ".json"), "w") as f:
                json.dump(ev, f, indent=1)
        if self.violations:
            for v, path in zip(self.violations, paths):
                log("VIOLATION property=%s replay=%s" % (self.pid, path))
                log("  " + brief(v))
            if len(self.violations) > len(paths):
                log("  (%d further mismatches not written)" % (len(self.violations) - len(paths)))
            return 1
        log("[%s] OK tier=%s states=%d traces=%d evaluations=%d wall=%.1fs"
            % (self.pid, self.tier, self.states, self.traces, self.evaluations, wall))
        return 0


def parse_deadlock(text):
    k = l = 0
    for m in re.finditer(r"/\\ (k|l) = (\d+)", text):
        if m.group(1) == "k":
            k = int(m.group(2))
        else:
            l = int(m.group(2))
    return k, l


def brief(m):
    s = json.dumps(m, ensure_ascii=True)
    return s if len(s) < 600 else s[:600] + "..."


def load_findings():
    p = os.path.join(VERIF, "known_findings.json")
    if not os.path.exists(p):
        return {}
    with open(p) as f:
        return {e["id"]: e for e in json.load(f)["findings"]}


def text_of(codes):
    return "".join(chr(c) if 32 <= c < 127 else "\\x%02x" % c if c < 256 else chr(c) for c in codes)
