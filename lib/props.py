"""Per-property check plans.  Each plan: model-check the specification (TLC), replay
TLC-emitted cases into the real code (spec -> impl), validate traces recorded from the
real code against the specification (impl -> spec)."""
import json, os, subprocess
import core


def q(ctx, quick, thorough):
    return quick if ctx.quick else thorough


def C01(ctx):
    t = "quick" if ctx.quick else "thorough"
    ctx.rule = ("versions = all concatenations of <= 2 tokens of the alphabet in MC_DeweyPairs; every ordered pair "
                "is asked 9 questions of the real code (4 operators through Pattern, 4 through Dewey, best_match); "
                "plus seeded random pairs (<= 12 tokens, arbitrary Unicode, <= 18-digit runs) validated by TLC; "
                "non-trivial = the pair is not a tie (A>B differs from A<B)")
    ctx.assumptions = ["digit runs of more than 18 digits are outside C01 (C17 covers them)",
                       "a version is asked only the questions it can be embedded in (no '<>{}' / leading '=' after an operator, no '-' in a name's version)"]
    ctx.mc("MC_DeweyTok", "MC_DeweyTok.%s.cfg" % t)
    ctx.mc("MC_DeweyCmp", "MC_DeweyCmp.%s.cfg" % t)
    ctx.mc("MC_TextEquiv", "MC_TextEquiv.%s.cfg" % t)      # fold-based tokeniser / comparison = recursive reference
    ctx.emit_replay("MC_DeweyPairs", "MC_DeweyPairs.%s.cfg" % t, "pairs")
    if not ctx.quick:
        # all ordered pairs of versions of <= 3 tokens over a 14-token alphabet (about 8 million pairs)
        ctx.emit_replay("MC_DeweyPairs", "MC_DeweyPairs.deep.cfg", "pairs-deep", timeout=3000)
    ctx.exhaustive = True
    ctx.record_validate("vercmp", q(ctx, 20000, 300000), "Tr_Dewey", "Tr_Dewey.cfg")
    # the comparison is a function of the two versions, not of what was compared before: related
    # patterns x names (with case twins) in both evaluation orders on the same compiled patterns
    ctx.record_validate("patmatrix", q(ctx, 2500, 40000), "Tr_Pattern", "Tr_Pattern.cfg")


def C03(ctx):
    t = "quick" if ctx.quick else "thorough"
    ctx.rule = ("order laws model-checked on the declarative comparison for all pairs/triples of the bounded vector "
                "domain; seeded random triples of version strings (including non-ASCII, 19-40 digit runs, arbitrary "
                "punctuation) recorded from the real code, laws validated by TLC on the observed verdicts themselves; "
                "non-trivial = triple with at least one strict comparison")
    ctx.mc("MC_DeweyCmp", "MC_DeweyCmp.%s.cfg" % t)
    ctx.mc("MC_DeweyLaws", "MC_DeweyLaws.%s.cfg" % t)
    # the same laws, and "implemented comparison = declarative order", for ALL integer components
    # (vectors of length <= 4): Apalache, symbolic
    ctx.apalache("ApaDeweyLaws", "Laws")
    ctx.apalache("ApaDeweyLaws", "AlgIsRef")
    # ... and proved for vectors of ANY length over all integers (TLAPS, 106 obligations)
    ctx.tlaps("OrderProofs")
    ctx.record_validate("vertriple", q(ctx, 20000, 200000), "Tr_Dewey", "Tr_Dewey.cfg", chunk=20000)


PROPS = {"C01": C01, "C03": C03}


TR_FOR_OP = {
    "patmatrix": ("Tr_Pattern", {}),
    "vercmp": ("Tr_Dewey", {}), "vertriple": ("Tr_Dewey", {}),
    "patmatch": ("Tr_Pattern", {}), "best": ("Tr_Pattern", {}),
    "reduce": ("Tr_BestMatch", {"devs": {"lb96": "KF1"}, "base_tag": "lb0"}),
    "pkgname": ("Tr_Names", {}), "pkgpath": ("Tr_Names", {}), "depend": ("Tr_Names", {}),
    "sumhist": ("Tr_Summary", {}), "sumparse": ("Tr_Summary", {}), "stream": ("Tr_SummaryStream", {}),
    "distparse": ("Tr_Distinfo", {}), "distbuild": ("Tr_Distinfo", {}), "verify": ("Tr_Distinfo", {}),
    "digest": ("Tr_Digest", {}), "algname": ("Tr_Digest", {}),
    "plist": ("Tr_Plist", {}), "plistline": ("Tr_Plist", {}),
    "scanindex": ("Tr_ScanIndex", {}),
    "pkgdb": ("Tr_PkgDb", {}), "metahist": ("Tr_PkgDb", {}), "metaname": ("Tr_PkgDb", {}),
}


def replay(ctx, path):
    """Re-run exactly one recorded violation against the current tree: the case's input is driven
    into the real code again and the new observation is validated by the trace specification of
    its operation.  Exit 1 (VIOLATION) if it still fails, 0 if the current tree conforms."""
    v = json.load(open(path))
    case = v.get("case") or {}
    case = case.get("replay_as") or case
    op = case.get("op")
    if not op or op not in TR_FOR_OP or "in" not in case:
        print("replay file has no replayable case (op=%r)" % op)
        return 2
    os.makedirs(os.path.join(core.VERIF, "work", "scratch"), exist_ok=True)
    cases = os.path.join(ctx.work, "replay.cases.ndjson")
    with open(cases, "w") as f:
        f.write(json.dumps({"op": op, "in": case["in"]}) + "\n")
    module, kw = TR_FOR_OP[op]
    if ctx.pid == "C17":
        module, kw = "Tr_Totality", {}
    ctx.rule = "replay of one recorded case"
    ctx.record_validate("@cases", 1, module, module + ".cfg", name="replay", args=[cases], **kw)
    return ctx.finish(write_evidence=False)


def C04(ctx):
    t = "quick" if ctx.quick else "thorough"
    ctx.rule = ("patterns = every concatenation of <= N pieces over { } , a b (chars) and over { } , a b -1 >1 * (mixed); "
                "each brace pattern's compile verdict and its match verdicts against a fixed name list, all of its csh "
                "expansions and all near-miss strings are compared with the real code; plus random brace trees; "
                "non-trivial = a (pattern, name) pair that matches")
    ctx.emit_replay("MC_PatEnum", "MC_PatEnum.chars.%s.cfg" % t, "brace-chars")
    ctx.emit_replay("MC_PatEnum", "MC_PatEnum.mixed.%s.cfg" % t, "brace-mixed")
    ctx.exhaustive = True


PROPS["C04"] = C04


def C02(ctx):
    t = "quick" if ctx.quick else "thorough"
    ctx.rule = ("patterns = every string of <= 4/5 symbols over {a b - > < = 1 2 e-acute}; compile verdict and match "
                "verdicts against a fixed name list through Pattern and through Dewey compared with the real code; "
                "plus random grammar-derived patterns (bases with several '-', near-miss bases, empty bounds, "
                "adjacent operators, non-ASCII) validated by TLC; non-trivial = a (pattern, name) pair that matches")
    ctx.assumptions = ["error kind/position of a rejected pattern is not compared (documented as approximate)"]
    ctx.emit_replay("MC_PatEnum", "MC_PatEnum.dewey.%s.cfg" % t, "dewey-enum")
    ctx.exhaustive = True
    # (size budget: a pattern and two names with a base of 65 522 ... 70 000 bytes are about 900 000 JSON characters)
    ctx.record_validate("patdewey", q(ctx, 10000, 150000), "Tr_Pattern", "Tr_Pattern.cfg",
                        big=((1000000, 2900000) if ctx.quick else None))
    # history independence: related patterns x names, pattern-major and name-major, compiled patterns reused
    ctx.record_validate("patmatrix", q(ctx, 4000, 60000), "Tr_Pattern", "Tr_Pattern.cfg")


def C04b(ctx):
    ctx.record_validate("patbrace", q(ctx, 8000, 100000), "Tr_Pattern", "Tr_Pattern.cfg")


def C05(ctx):
    t = "quick" if ctx.quick else "thorough"
    ctx.rule = ("patterns = every sequence of <= 3/4 items over {a b - 1 * ? [ab] [!a] [0-9]} (globs and plain strings) "
                "against all names of length <= 3 over {a b - 1 0} plus selected longer ones, including the empty name; "
                "fast-reject inertness is an invariant of every enumerated pattern kind (glob, plain here; dewey and "
                "brace in the C02/C04 instances, re-run here at quick size); random well-formed globs and names "
                "differing in the first/second character validated by TLC; non-trivial = matching pair")
    ctx.assumptions = ["'**', '***', '[]', '[!]', '[^x]', backslashes and sets with ']' '[' '!' '-' as members are outside "
                       "the judged shell-glob subset (only totality is required there)"]
    ctx.emit_replay("MC_PatEnum", "MC_PatEnum.glob.%s.cfg" % t, "glob-enum")
    ctx.emit_replay("MC_PatEnum", "MC_PatEnum.mixed.quick.cfg", "brace-mixed")
    ctx.exhaustive = True
    ctx.record_validate("patglob", q(ctx, 10000, 150000), "Tr_Pattern", "Tr_Pattern.cfg")
    ctx.record_validate("patmatrix", q(ctx, 3000, 40000), "Tr_Pattern", "Tr_Pattern.cfg")


def C06(ctx):
    t = "quick" if ctx.quick else "thorough"
    ctx.rule = ("reduction machine: all pools of <= 3/4 candidates over 10 names x 4 patterns, all orders of pairwise "
                "reduction (TLC interleavings); simulated reduction behaviours replayed step by step on the real code; "
                "random pools of <= 8 names with random reduction orders recorded and validated through the Reduce "
                "action; best_match pairs in both argument orders; TLAPS proof (spec/tlaps/ReduceProofs.tla, pools of any "
                "size): pairwise reduction in any order from any start ends with the unique best candidate; "
                "non-trivial = some candidate matches")
    ctx.mc("MC_BestMatch", "MC_BestMatch.%s.cfg" % t)
    ctx.tlaps("ReduceProofs")
    ctx.emit_replay("MC_BestMatch", "MC_BestMatch.sim.cfg", "reduce-sim", workers=1,
                    simulate="num=%d" % q(ctx, 2000, 20000), seed=ctx.seed)
    ctx.record_validate("best", q(ctx, 10000, 100000), "Tr_Pattern", "Tr_Pattern.cfg")
    ctx.record_validate("reduce", q(ctx, 4000, 40000), "Tr_BestMatch", "Tr_BestMatch.cfg",
                        devs={"lb96": "KF1"}, base_tag="lb0")


PROPS.update({"C02": C02, "C05": C05, "C06": C06})
_c04 = C04


def C04(ctx):
    _c04(ctx)
    C04b(ctx)


PROPS["C04"] = C04


def C18(ctx):
    t = "quick" if ctx.quick else "thorough"
    ctx.rule = ("names = every concatenation of <= 5/6 tokens over {a n b nb 1 2 - .}; PkgName, the Summary accessors "
                "and the matcher's split compared with the specification; random names (non-ASCII, several '-', 'nb' in "
                "the base, up to 18-digit revisions) with probe patterns pinning the revision the comparison uses; "
                "non-trivial = name with a '-' and a revision")
    ctx.assumptions = ["the reported revision is judged only for versions without any 'nb' (none) and versions ending in "
                       "nb<digits> (that number); elsewhere only totality"]
    ctx.emit_replay("MC_Names", "MC_Names.pkgname.%s.cfg" % t, "pkgname-enum")
    ctx.exhaustive = True
    ctx.record_validate("pkgname", q(ctx, 20000, 200000), "Tr_Names", "Tr_Names.cfg")
    # the Summary accessors after every call of histories that replace PKGNAME by related names
    ctx.record_validate("sumnames", q(ctx, 3000, 40000), "Tr_Summary", "Tr_Summary.cfg")


def C19(ctx):
    t = "quick" if ctx.quick else "thorough"
    ctx.rule = ("paths = every sequence of <= 4/6 segments over {.. . a b empty} with/without leading and trailing '/'; "
                "dependency strings = every x:y:.. of <= 3/4 parts over valid/invalid patterns and paths; accept/reject, "
                "both accessors (component-wise), equality of both spellings and the re-parse fixpoint compared; random "
                "segment strings with long/Unicode names; non-trivial = accepted input")
    ctx.emit_replay("MC_Names", "MC_Names.pkgpath.%s.cfg" % t, "pkgpath-enum")
    ctx.emit_replay("MC_Names", "MC_Names.pkgpath-deep.%s.cfg" % t, "pkgpath-deep")
    ctx.emit_replay("MC_Names", "MC_Names.depend.%s.cfg" % t, "depend-enum")
    ctx.exhaustive = True
    ctx.record_validate("pkgpath", q(ctx, 20000, 200000), "Tr_Names", "Tr_Names.cfg", name="pkgpath")
    ctx.record_validate("depend", q(ctx, 10000, 100000), "Tr_Names", "Tr_Names.cfg", name="depend")


PROPS.update({"C18": C18, "C19": C19})


def C07(ctx):
    t = "quick" if ctx.quick else "thorough"
    ctx.rule = ("entry machine: all set_/push_ histories of depth <= 3/4 over a reduced table (model checking); simulated "
                "histories of 40 calls over the full 23-variable table replayed on three fresh Summary values each "
                "(all getters + printed text + is_completed after every call, parse-back at the end); random entries built "
                "by random call orders with overwritten noise values, validated call by call through the entry machine; "
                "non-trivial = history ending in a complete entry")
    ctx.assumptions = ["values contain no CR/LF; list variables are set to non-empty lists (empty lists only in C17)"]
    ctx.mc("MC_Summary", "MC_Summary.%s.cfg" % t)
    ctx.emit_replay("MC_Summary", "MC_Summary.sim.cfg", "hist-sim", workers=1,
                    simulate="num=%d" % q(ctx, 500, 5000), seed=ctx.seed, coverage=False)
    ctx.record_validate("sumhist", q(ctx, 1500, 20000), "Tr_Summary", "Tr_Summary.cfg", chunk=4000)


def C08(ctx):
    t = "quick" if ctx.quick else "thorough"
    ctx.rule = ("texts = a canonical 23-variable entry with every single edit (quick) / every pair of edits (thorough): each "
                "line removed, each name misspelt 6 ways, each integer replaced by 9 non-integers and 5 unusual integers, a "
                "line without '=' or an empty line at every position, every variable repeated; verdict and reported cause "
                "compared with the real parser; random texts (shuffled, repeated, 0-2 faults, CRLF) validated by TLC; "
                "non-trivial = accepted text")
    ctx.assumptions = ["when a text has several faults the property does not fix which is reported: any cause present is accepted"]
    ctx.emit_replay("MC_SummaryParse", "MC_SummaryParse.%s.cfg" % t, "parse-faults", timeout=3000)
    ctx.exhaustive = True
    ctx.record_validate("sumparse", q(ctx, 8000, 100000), "Tr_Summary", "Tr_Summary.cfg")
    # is_completed() against the eleven required variables, after every call of random histories
    ctx.record_validate("sumhist", q(ctx, 800, 10000), "Tr_Summary", "Tr_Summary.cfg", name="completed", chunk=4000)


def C09(ctx):
    t = "quick" if ctx.quick else "thorough"
    ctx.rule = ("model checking: every stream of <= 3/4 records over an abstract byte alphabet and EVERY partition into "
                "writes, implemented algorithm refines the property; simulated (stream, partition) behaviours mapped to "
                "real pkg_summary bytes, run on the real SummaryStream and validated write by write; real streams (1-3 "
                "random entries, ASCII and 2/3/4-byte characters, one malformed entry of 6 kinds at every position): one "
                "call, byte-at-a-time, fixed chunk sizes, every single cut, pairs of cuts, random partitions; "
                "non-trivial = history that collects at least one entry")
    ctx.assumptions = ["timing of the failure: required at the write completing the bad entry, allowed earlier once one of its bytes arrived",
                       "streams containing invalid UTF-8: only 'fails by the completing write, collected entries are a prefix of the preceding well-formed ones'",
                       "a history ends at its first failing write"]
    ctx.mc("MC_SummaryStream", "MC_SummaryStream.%s.cfg" % t)
    ctx.emit_run_validate("MC_SummaryStream", "MC_SummaryStream.sim.cfg", "stream-sim", "Tr_SummaryStream",
                          "Tr_SummaryStream.cfg", workers=1, simulate="num=%d" % q(ctx, 600, 6000), seed=ctx.seed,
                          coverage=False)
    if ctx.quick:
        # (the size budget admits the plan's one record of more than 1 MiB)
        ctx.record_validate("stream", 1500, "Tr_SummaryStream", "Tr_SummaryStream.cfg", args=[1500], big=(8000000, 9000000))
    else:
        for i in range(8):
            ctx.record_validate("stream", 4000, "Tr_SummaryStream", "Tr_SummaryStream.cfg", name="stream%d" % i,
                                args=[4000, "pairs"], seed_offset=104729 * i)


PROPS.update({"C07": C07, "C08": C08, "C09": C09})


def hashlib_crosscheck(ctx, n):
    """Interpretation of the specification's uninterpreted H: the oracle the harness compares
    the library against (RustCrypto called directly) and the library itself are cross-checked
    against python hashlib on seeded vectors around every block boundary and multi-KiB."""
    import hashlib
    trace = os.path.join(ctx.work, "hashvec.trace.ndjson")
    p = subprocess.run([core.harness_bin("record"), "hashvec", str(ctx.seed), str(n), trace, "30"],
                       capture_output=True, text=True)
    if p.returncode != 0:
        raise core.ToolFailure("record hashvec failed")
    algs = ["blake2s", "md5", "ripemd160", "sha1", "sha256", "sha512"]
    bad = 0
    cnt = 0
    for line in open(trace):
        r = json.loads(line)
        data = bytes(r["in"]["data"])
        want = [hashlib.new(a, data).hexdigest() for a in algs]
        cnt += 1
        o = r["out"]
        ok = o.get("oracle") == want and o.get("file") == want and (o.get("str") in ([], want))
        if not ok:
            bad += 1
            ctx.add_mismatch({"case": {"op": "hashvec", "in": {"len": len(data)}, "hashlib": want, "observed": o},
                              "what": "library / oracle digest differs from python hashlib"}, "hashlib")
    ctx.evaluations += cnt * 18
    ctx.stages.append({"stage": "hashlib known-answer cross-check (interprets H)", "vectors": cnt, "mismatches": bad,
                       "algorithms": algs})
    core.log("[%s] hashlib cross-check: %d vectors x 6 algorithms x (hash_file, hash_str, oracle), %d mismatches"
             % (ctx.pid, cnt, bad))


def C13(ctx):
    t = "quick" if ctx.quick else "thorough"
    ctx.rule = ("reader machine: all inputs of length <= 5/7 over {x, newline, $, N} (marker '$N'), all schedules of reads of "
                "1..3 bytes with Interrupted and a hard error anywhere (model checking); simulated schedules mapped to real "
                "bytes ('$N' -> '$NetBSD') replayed through a scripted reader on hash_file/hash_patch for all six algorithms; "
                "random inputs (binary around block boundaries, patch-like text with markers) x random schedules validated "
                "through the reader machine; algorithm names; hashlib known answers; non-trivial = patch input with a "
                "filtered line")
    ctx.assumptions = ["'equals the standard algorithm' is decided by a differential known-answer test against python hashlib "
                       "(TLC cannot evaluate SHA-512 etc.); everything around the hash function is decided on the model",
                       "TLC-validated inputs are <= 1500 bytes; 4 KiB and 70 KB inputs only in the hashlib cross-check"]
    ctx.mc("MC_Digest", "MC_Digest.%s.cfg" % t)
    ctx.emit_replay("MC_Digest", "MC_Digest.sim.cfg", "sched-sim", workers=1,
                    simulate="num=%d" % q(ctx, 3000, 30000), seed=ctx.seed, coverage=False)
    ctx.record_validate("digest", q(ctx, 3000, 40000), "Tr_Digest", "Tr_Digest.cfg",
                        big=((330000, 1500000) if ctx.quick else None))
    ctx.record_validate("algname", q(ctx, 500, 5000), "Tr_Digest", "Tr_Digest.cfg", name="algname")
    hashlib_crosscheck(ctx, q(ctx, 64, 320))


PROPS["C13"] = C13


def C10(ctx):
    t = "quick" if ctx.quick else "thorough"
    ctx.rule = ("Distinfo values assembled from <= 2/3 entries over 8 distfile and 4 patch names (sub-directories, C3 A0, "
                "C3 85, lone E9), 6 checksum choices, sizes up to u64::MAX, 3 RCS lines: write->parse and parse->write on "
                "the spec; each canonical text replayed on the real code (parsed value and as_bytes); random canonical files "
                "(names over all bytes except ASCII blanks, RCS lines of any bytes) and API-assembled values validated by TLC; "
                "non-trivial = file with at least one entry")
    ctx.assumptions = ["two names equal as paths but different as bytes are not generated (entries are keyed by PathBuf)",
                       "API-assembled patch entries carry no size (the layout has no size line for patches)"]
    ctx.emit_replay("MC_Distinfo", "MC_Distinfo.canon.%s.cfg" % t, "canon-enum")
    ctx.exhaustive = True
    ctx.record_validate("distcanon", q(ctx, 6000, 80000), "Tr_Distinfo", "Tr_Distinfo.cfg", name="distcanon")
    ctx.record_validate("distbuild", q(ctx, 6000, 80000), "Tr_Distinfo", "Tr_Distinfo.cfg", name="distbuild")


def C11(ctx):
    t = "quick" if ctx.quick else "thorough"
    ctx.rule = ("every sequence of <= 3/4 lines over 26 line kinds (checksum/size lines for 10 names incl. every patch-rule "
                "exception, extra blanks and tabs, comment, blank, unknown algorithm, bad sizes, non-parenthesised name, RCS "
                "lines): fold = declarative grouping, ignorable lines are no-ops; replayed on the real code; random "
                "interleavings with names over arbitrary non-blank bytes validated by TLC; non-trivial = text with a "
                "recognised line")
    ctx.assumptions = ["truncated checksum lines ('SHA1 (f)', bare 'SHA1') and lines whose third field is not '=' are not judged",
                       "'emul-patch-x' (shared hyphen) is not judged"]
    ctx.emit_replay("MC_Distinfo", "MC_Distinfo.lines.%s.cfg" % t, "lines-enum")
    ctx.exhaustive = True
    ctx.record_validate("distmessy", q(ctx, 8000, 100000), "Tr_Distinfo", "Tr_Distinfo.cfg", name="distmessy")


def C12(ctx):
    t = "quick" if ctx.quick else "thorough"
    os.makedirs(os.path.join(core.VERIF, "work", "scratch"), exist_ok=True)
    ctx.rule = ("lookup machine = shortest recorded trailing sub-path for every path of <= 3/4 components and every set of "
                "<= 2/3 recorded names (trailing sub-paths, distractors sharing the tail, near misses); every such "
                "configuration x contents x {intact, hash corrupted at hex position 1 / 9 / 32, hash of another file, patch "
                "hashed as plain file, size off by one} materialised as real files and verified by the real code; random "
                "contents/nesting/corruptions validated by TLC; hashes interpreted by the oracle on the bytes the "
                "specification says are absorbed; non-trivial = every case (a real file is verified)")
    ctx.assumptions = ["permission errors, races and non-UTF-8 directory names are outside the stated quantifiers"]
    ctx.mc("MC_Verify", "MC_Verify.%s.cfg" % t)
    ctx.emit_run_validate("MC_Verify", "MC_Verify.emit.%s.cfg" % t, "verify-enum", "Tr_Distinfo", "Tr_Distinfo.cfg")
    ctx.exhaustive = True
    # (size budget: room for several patch files built around the 64 KiB boundary)
    ctx.record_validate("verify", q(ctx, 4000, 50000), "Tr_Distinfo", "Tr_Distinfo.cfg",
                        big=((330000, 1600000) if ctx.quick else None))


PROPS.update({"C10": C10, "C11": C11, "C12": C12})


def C14(ctx):
    t = "quick" if ctx.quick else "thorough"
    ctx.rule = ("scanner: every byte string of length <= 7/9 over {a, space, tab, newline, @} (implemented four-index scanner = "
                "maximal non-blank segments; final newline irrelevant), strings of length <= 6/7 replayed on the real parser; "
                "every command word (18 commands, 7 near-misses) x 12 argument classes as single lines through the list parser "
                "and the single-line parser; random lists of 0-60 lines with arbitrary bytes validated by TLC, including that "
                "every kept line parsed alone gives the same entry; non-trivial = list with at least one file entry")
    ctx.assumptions = ["blanks = tab, VT, FF, CR, space (pkg_install's isspace); lines consisting only of blanks and the bytes "
                       "85 A0, and arguments whose first byte after the blank run is 85 or A0, are not judged (whether those "
                       "two bytes are blanks is left open by the statement)",
                       "the error kind of a rejected line is not compared"]
    ctx.emit_replay("MC_Plist", "MC_Plist.scan.%s.cfg" % t, "scan-enum")
    ctx.emit_replay("MC_Plist", "MC_Plist.cmds.%s.cfg" % t, "cmds-enum")
    ctx.exhaustive = True
    ctx.record_validate("plist", q(ctx, 8000, 100000), "Tr_Plist", "Tr_Plist.cfg", name="plist")
    ctx.record_validate("plistline", q(ctx, 8000, 100000), "Tr_Plist", "Tr_Plist.cfg", name="plistline")


def C15(ctx):
    t = "quick" if ctx.quick else "thorough"
    ctx.rule = ("every sequence of <= 3/5 entries over 18 entry kinds (two files, @ignore, three @cwd incl. trailing '/' and "
                "non-UTF-8, @exec, @unexec, @mode with/without argument, @pkgdir, @dirrm, @name, @option, @comment, @pkgdep, "
                "@display, @owner): the four implemented view loops = the property's definitions, all views list the same "
                "files; sequences of <= 3/4 entries rendered to text and all twelve queries compared on the real code; random "
                "lists of <= 60 entries validated by TLC; non-trivial = list with at least one listed file")
    ctx.emit_replay("MC_Plist", "MC_Plist.views.%s.cfg" % t, "views-enum")
    ctx.exhaustive = True
    ctx.record_validate("plist", q(ctx, 10000, 120000), "Tr_Plist", "Tr_Plist.cfg", name="plist")


PROPS.update({"C14": C14, "C15": C15})


def C16(ctx):
    t = "quick" if ctx.quick else "thorough"
    ctx.rule = ("reader machine: every sequence of <= 3/4 lines over 15 line kinds with an I/O error at every position (loop = "
                "declarative block reading; failure is all-or-nothing), each behaviour replayed through a scripted reader on "
                "the real from_reader with all fields compared; random files (0-30 records, all 15 keys, repeated keys with "
                "record-tagged values, surrounding blanks, '=' in values, missing-PKGNAME / bad-dependency / bad-location "
                "faults, I/O error at a random line) validated line by line through the machine; non-trivial = read that "
                "yields at least one record")
    ctx.assumptions = ["lines with blanks between the key and '=' are not judged", "input is valid UTF-8 (invalid UTF-8 is reported by the reader as an error)"]
    ctx.emit_replay("MC_ScanIndex", "MC_ScanIndex.%s.cfg" % t, "scan-enum")
    ctx.exhaustive = True
    # (size budget: an index line of more than 64 KiB is about 450 000 JSON characters)
    ctx.record_validate("scanindex", q(ctx, 5000, 60000), "Tr_ScanIndex", "Tr_ScanIndex.cfg",
                        big=((700000, 2200000) if ctx.quick else None))


PROPS["C16"] = C16


def C20(ctx):
    t = "quick" if ctx.quick else "thorough"
    os.makedirs(os.path.join(core.VERIF, "work", "scratch"), exist_ok=True)
    ctx.rule = ("databases of <= 2/3 entries over 6 names x {directory, stray file} x 8 file subsets, materialised as real "
                "directory trees and iterated with PkgDB (multiset of (pkgname, base, version), every +FILE read back); "
                "read_metadata histories of <= 2/3 calls over 14 entries x 7 values replayed on the real Metadata; random "
                "trees (incl. names without '-', empty database) and histories validated by TLC; all 14 file names and "
                "near-misses both ways; non-trivial = database with at least one valid package")
    ctx.assumptions = ["directory order is unspecified: compared as multisets", "base/version are judged for names containing '-'",
                       "permission errors and non-UTF-8 directory names are outside the stated quantifiers"]
    ctx.emit_replay("MC_PkgDb", "MC_PkgDb.db.%s.cfg" % t, "db-enum")
    ctx.emit_replay("MC_PkgDb", "MC_PkgDb.meta.%s.cfg" % t, "meta-enum")
    ctx.exhaustive = True
    ctx.record_validate("pkgdb", q(ctx, 1500, 15000), "Tr_PkgDb", "Tr_PkgDb.cfg", name="pkgdb")
    ctx.record_validate("metahist", q(ctx, 4000, 40000), "Tr_PkgDb", "Tr_PkgDb.cfg", name="metahist")
    ctx.record_validate("metaname", q(ctx, 1000, 5000), "Tr_PkgDb", "Tr_PkgDb.cfg", name="metaname")


PROPS["C20"] = C20


def C17(ctx):
    t = "quick" if ctx.quick else "thorough"
    os.makedirs(os.path.join(core.VERIF, "work", "scratch"), exist_ok=True)
    ctx.rule = ("termination of the specification's machines (tokeniser index strictly increases, comparison index strictly "
                "increases: TLC action properties; brace expansion, tokeniser and glob parser variants in MC_Termination); every entry point of the statement driven with mutated valid documents "
                "(truncation, duplication, splicing, bit flips, 19-100 digit numbers, NUL, invalid UTF-8, multi-byte "
                "characters, runs of up to 5000 repeated metacharacters, lone operators, unbalanced braces) under "
                "catch_unwind and a watchdog; Summary call histories of up to 30 calls including empty lists; each "
                "recorded outcome validated by TLC: returned normally with an outcome of the allowed shape; "
                "non-trivial = call that returned a value rather than an error")
    ctx.assumptions = ["brace patterns are capped at 14 '{' / ',' characters (expansion is exponential by definition)",
                       "'promptly' = within the per-call watchdog (5 s quick / 30 s thorough) on inputs of at most a few KiB"]
    ctx.mc("MC_DeweyTok", "MC_DeweyTok.%s.cfg" % t)
    ctx.mc("MC_DeweyCmp", "MC_DeweyCmp.quick.cfg")
    # the non-recursive formulations the specification uses on long inputs = the recursive ones
    ctx.mc("MC_TextEquiv", "MC_TextEquiv.%s.cfg" % t)
    ctx.mc("MC_Summary", "MC_Summary.quick.cfg")
    ctx.mc("MC_Termination", "MC_Termination.%s.cfg" % t)
    rounds = 1 if ctx.quick else 10
    for i in range(rounds):
        ctx.record_validate("hostile", 6000, "Tr_Totality", "Tr_Totality.cfg", name="hostile%d" % i,
                            seed_offset=1000 * i)


PROPS["C17"] = C17


def EXT(ctx):
    """Not one of the twenty properties and not registered in MANIFEST.json: behaviour the
    specification covers beyond them (error variants and Display texts, Messages.tla)."""
    ctx.rule = ("error variant and Display text of every rejecting entry point (Pattern, Dewey, PkgPath, Depend, Summary, "
                "PlistEntry, Digest) on random rejected inputs, validated against Messages.tla")
    ctx.record_validate("errmsg", q(ctx, 10000, 100000), "Tr_Messages", "Tr_Messages.cfg")
    # the values as values: Eq / Hash / Clone / Ord of PkgName, PkgPath, Pattern, Depend (Values.tla)
    ctx.record_validate("values", q(ctx, 10000, 100000), "Tr_Values", "Tr_Values.cfg")


PROPS["EXT"] = EXT
TR_FOR_OP["errmsg"] = ("Tr_Messages", {})
TR_FOR_OP["values"] = ("Tr_Values", {})
