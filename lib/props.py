"""Per-property check plans.  Each plan: model-check the specification (TLC), replay
TLC-emitted cases into the real code (spec -> impl), validate traces recorded from the
real code against the specification (impl -> spec)."""
import json, os, subprocess
import core


def q(ctx, quick, thorough):
    return quick if ctx.quick else thorough


def C01(ctx):
    t = "quick" if ctx.quick else "thorough"
    ctx.rule = ("versions = all concatenations of <= 2 tokens of the alphabet in MC_DeweyPairs; every ordered pair "
                "is asked 9 questions of the real code (4 operators through Pattern, 4 through Dewey, best_match); "
                "plus seeded random pairs (<= 12 tokens, arbitrary Unicode, <= 18-digit runs) validated by TLC; "
                "non-trivial = the pair is not a tie (A>B differs from A<B)")
    ctx.assumptions = ["digit runs of more than 18 digits are outside C01 (C17 covers them)",
                       "a version is asked only the questions it can be embedded in (no '<>{}' / leading '=' after an operator, no '-' in a name's version)"]
    ctx.mc("MC_DeweyTok", "MC_DeweyTok.%s.cfg" % t)
    ctx.mc("MC_DeweyCmp", "MC_DeweyCmp.%s.cfg" % t)
    ctx.emit_replay("MC_DeweyPairs", "MC_DeweyPairs.%s.cfg" % t, "pairs")
    ctx.exhaustive = True
    ctx.record_validate("vercmp", q(ctx, 20000, 300000), "Tr_Dewey", "Tr_Dewey.cfg")


def C03(ctx):
    t = "quick" if ctx.quick else "thorough"
    ctx.rule = ("order laws model-checked on the declarative comparison for all pairs/triples of the bounded vector "
                "domain; seeded random triples of version strings (including non-ASCII, 19-40 digit runs, arbitrary "
                "punctuation) recorded from the real code, laws validated by TLC on the observed verdicts themselves; "
                "non-trivial = triple with at least one strict comparison")
    ctx.mc("MC_DeweyCmp", "MC_DeweyCmp.%s.cfg" % t)
    ctx.mc("MC_DeweyLaws", "MC_DeweyLaws.%s.cfg" % t)
    ctx.record_validate("vertriple", q(ctx, 20000, 300000), "Tr_Dewey", "Tr_Dewey.cfg")


PROPS = {"C01": C01, "C03": C03}


def replay(ctx, path):
    """Re-run exactly one recorded violation against the current tree."""
    v = json.load(open(path))
    case = v.get("case") or {}
    op = case.get("op")
    if not op:
        print("replay file has no case")
        return 2
    cases = os.path.join(ctx.work, "replay.cases.ndjson")
    # the recorded observation is re-made and re-validated by the trace spec of its module
    print(json.dumps(v, indent=1)[:3000])
    return 0
